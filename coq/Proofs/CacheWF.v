(* Proofs/CacheWF.v — part A: well-formedness of the slice-cache model and
   absence of panics, for EVERY history (no NoEmptyStored hypothesis). *)
From BS Require Import Spec.CacheSpec.
From Coq Require Import Lia ZifyN ZifyNat ZifyBool.
Open Scope N_scope.

(* ------------------------------------------------------------------ *)
(* lookup / remove_key / remove_keys                                   *)
(* ------------------------------------------------------------------ *)

Definition remove_keys (p : list N) (idx : list (N * range)) : list (N * range) :=
  fold_left (fun i k => remove_key k i) p idx.

Lemma remove_keys_nil idx : remove_keys [] idx = idx.
Proof. reflexivity. Qed.

Lemma remove_keys_cons k p idx : remove_keys (k :: p) idx = remove_keys p (remove_key k idx).
Proof. reflexivity. Qed.

Lemma remove_keys_app p1 p2 idx : remove_keys (p1 ++ p2) idx = remove_keys p2 (remove_keys p1 idx).
Proof. unfold remove_keys. apply fold_left_app. Qed.

Lemma lookup_remove_key_same k idx : lookup k (remove_key k idx) = None.
Proof.
  induction idx as [|[k' r] t IH]; cbn [remove_key lookup]; [reflexivity|].
  destruct (N.eqb_spec k k') as [E|E]; [exact IH|].
  cbn [lookup]. destruct (N.eqb_spec k k'); [contradiction|exact IH].
Qed.

Lemma lookup_remove_key_other k k' idx : k <> k' -> lookup k (remove_key k' idx) = lookup k idx.
Proof.
  intros Hne. induction idx as [|[k2 r] t IH]; cbn [remove_key lookup]; [reflexivity|].
  destruct (N.eqb_spec k' k2) as [E|E].
  - subst k2. destruct (N.eqb_spec k k'); [contradiction|exact IH].
  - cbn [lookup]. destruct (N.eqb_spec k k2); [reflexivity|exact IH].
Qed.

Lemma lookup_remove_keys_None k p : forall idx, lookup k idx = None -> lookup k (remove_keys p idx) = None.
Proof.
  induction p as [|z p IH]; intros idx Hi; [exact Hi|].
  rewrite remove_keys_cons. apply IH.
  destruct (N.eq_dec k z) as [E|E].
  - subst z. apply lookup_remove_key_same.
  - rewrite lookup_remove_key_other by exact E. exact Hi.
Qed.

Lemma lookup_remove_keys_in k p : forall idx, In k p -> lookup k (remove_keys p idx) = None.
Proof.
  induction p as [|x p IH]; intros idx Hin; [destruct Hin|].
  rewrite remove_keys_cons. destruct Hin as [E|Hin].
  - subst x. apply lookup_remove_keys_None. apply lookup_remove_key_same.
  - apply IH. exact Hin.
Qed.

Lemma lookup_remove_keys_notin k p : forall idx, ~ In k p -> lookup k (remove_keys p idx) = lookup k idx.
Proof.
  induction p as [|x p IH]; intros idx Hnin; [reflexivity|].
  rewrite remove_keys_cons, IH.
  - apply lookup_remove_key_other. intros E. apply Hnin. left. symmetry. exact E.
  - intros E. apply Hnin. right. exact E.
Qed.

Lemma lookup_In_fst k idx : lookup k idx <> None <-> In k (map fst idx).
Proof.
  induction idx as [|[k' r] t IH]; cbn [lookup map fst In].
  - split; [intros H; apply H; reflexivity|intros []].
  - destruct (N.eqb_spec k k') as [E|E].
    + split; [intros _; left; symmetry; exact E|intros _; discriminate].
    + rewrite IH. split; [intros H; right; exact H|intros [H|H]; [symmetry in H; contradiction|exact H]].
Qed.

Lemma In_fst_remove_key x k idx : In x (map fst (remove_key k idx)) -> In x (map fst idx).
Proof.
  induction idx as [|[k' r] t IH]; cbn [remove_key map fst In]; [intros []|].
  destruct (N.eqb_spec k k') as [E|E].
  - intros H. right. apply IH. exact H.
  - cbn [map fst In]. intros [H|H]; [left; exact H|right; apply IH; exact H].
Qed.

Lemma NoDup_remove_key k idx : NoDup (map fst idx) -> NoDup (map fst (remove_key k idx)).
Proof.
  induction idx as [|[k' r] t IH]; cbn [remove_key map fst]; intros Hnd; [constructor|].
  inversion Hnd as [|a l Hnin Hnd']; subst.
  destruct (N.eqb_spec k k') as [E|E]; [apply IH; exact Hnd'|].
  cbn [map fst]. constructor; [|apply IH; exact Hnd'].
  intros Hin. apply Hnin. eapply In_fst_remove_key. exact Hin.
Qed.

Lemma NoDup_remove_keys p : forall idx, NoDup (map fst idx) -> NoDup (map fst (remove_keys p idx)).
Proof.
  induction p as [|x p IH]; intros idx Hnd; [exact Hnd|].
  rewrite remove_keys_cons. apply IH. apply NoDup_remove_key. exact Hnd.
Qed.

Lemma lookup_remove_keys_Some k p idx r : lookup k (remove_keys p idx) = Some r -> lookup k idx = Some r /\ ~ In k p.
Proof.
  intros H. destruct (in_dec N.eq_dec k p) as [Hp|Hp].
  - rewrite lookup_remove_keys_in in H by exact Hp. discriminate.
  - rewrite lookup_remove_keys_notin in H by exact Hp. split; assumption.
Qed.

Lemma NoDup_snoc {A} (l : list A) x : NoDup l -> ~ In x l -> NoDup (l ++ [x]).
Proof.
  induction l as [|a l IH]; cbn [app]; intros Hnd Hnin.
  - constructor; [intros []|constructor].
  - inversion Hnd as [|a' l' Ha Hl]; subst. constructor.
    + intros Hin. apply in_app_or in Hin. destruct Hin as [Hin|[Hin|[]]]; [contradiction|].
      apply Hnin. left. symmetry. exact Hin.
    + apply IH; [exact Hl|]. intros Hin. apply Hnin. right. exact Hin.
Qed.

Lemma NoDup_app_remove_l {A} (p q : list A) : NoDup (p ++ q) -> NoDup q.
Proof.
  induction p as [|x p IH]; cbn [app]; intros Hnd; [exact Hnd|].
  inversion Hnd; subst. apply IH. assumption.
Qed.

Lemma NoDup_app_disj {A} (p q : list A) k : NoDup (p ++ q) -> In k p -> In k q -> False.
Proof.
  induction p as [|x p IH]; cbn [app]; intros Hnd Hkp Hkq; [destruct Hkp|].
  inversion Hnd as [|a l Hx Hl]; subst. destruct Hkp as [E|Hkp].
  - subst x. apply Hx. apply in_or_app. right. exact Hkq.
  - apply IH; assumption.
Qed.

(* ------------------------------------------------------------------ *)
(* remove_range: what the eviction walk computes                       *)
(* ------------------------------------------------------------------ *)

Lemma remove_range_spec q : forall idx r,
  NoDup q -> (forall k, In k q -> lookup k idx <> None) ->
  exists p q', q = p ++ q' /\
    remove_range idx q r = Some (remove_keys p idx, q', lenN p) /\
    (forall k, In k p -> exists rg, lookup k idx = Some rg /\ overlaps r rg = true) /\
    match q' with
    | [] => True
    | k :: _ => exists rg, lookup k idx = Some rg /\ overlaps r rg = false
    end.
Proof.
  induction q as [|back q IH]; intros idx r Hnd Hkeys.
  - exists [], []. cbn. repeat split; auto. intros k [].
  - cbn [remove_range].
    destruct (lookup back idx) as [rg|] eqn:Hl.
    2:{ exfalso. apply (Hkeys back); [left; reflexivity|exact Hl]. }
    inversion Hnd as [|a l Hnin Hnd']; subst.
    destruct (overlaps r rg) eqn:Ho.
    + destruct (IH (remove_key back idx) r Hnd') as (p & q' & Hq & Hrr & Hp & Hq').
      { intros k Hk. rewrite lookup_remove_key_other.
        - apply Hkeys. right. exact Hk.
        - intros E. subst k. contradiction. }
      exists (back :: p), q'. split; [cbn; f_equal; exact Hq|]. split.
      * rewrite Hrr. rewrite remove_keys_cons. rewrite lenN_cons. do 2 f_equal. lia.
      * split.
        -- intros k [E|Hk].
           ++ subst k. exists rg. split; assumption.
           ++ destruct (Hp k Hk) as (rg' & Hl' & Ho'). exists rg'. split; [|exact Ho'].
              rewrite lookup_remove_key_other in Hl'; [exact Hl'|].
              intros E. subst k. apply Hnin. rewrite Hq. apply in_or_app. left. exact Hk.
        -- destruct q' as [|k q'']; [exact I|].
           destruct Hq' as (rg' & Hl' & Ho'). exists rg'. split; [|exact Ho'].
           rewrite lookup_remove_key_other in Hl'; [exact Hl'|].
           intros E. subst k. apply Hnin. rewrite Hq. apply in_or_app. right. left. reflexivity.
    + exists [], (back :: q). cbn [app]. split; [reflexivity|]. split; [reflexivity|]. split.
      * intros k [].
      * exists rg. split; assumption.
Qed.

(* ------------------------------------------------------------------ *)
(* insert = guard ; wrap_phase ; write_phase                           *)
(* ------------------------------------------------------------------ *)

Definition wrap_phase (c : cache) (value : list byte) : option (N * cache) :=
  if cap c <? lenN value + c_fp c then
    match from_begin_end (c_fp c) (cap c) with
    | Some rg =>
        match remove_range (c_indexes c) (c_queue c) rg with
        | Some (idx, q, n) =>
            Some (n, {| c_buffer := c_buffer c; c_fp := 0; c_indexes := idx; c_queue := q; c_full := true |})
        | None => None
        end
    | None =>
        Some (0, {| c_buffer := c_buffer c; c_fp := 0; c_indexes := c_indexes c; c_queue := c_queue c; c_full := true |})
    end
  else Some (0, c).

Definition write_phase (c : cache) (key : N) (value : list byte) : option (N * cache) :=
  let b := c_fp c in
  let e := b + lenN value in
  match write_at (c_buffer c) b e value with
  | None => None
  | Some buf =>
      let rg := {| r_begin := b; r_end := e |} in
      match remove_range (c_indexes c) (c_queue c) rg with
      | None => None
      | Some (idx', q', n) =>
          Some (n, {| c_buffer := buf; c_fp := e; c_indexes := (key, rg) :: idx';
                      c_queue := q' ++ [key]; c_full := c_full c |})
      end
  end.

Lemma insert_eq c k v :
  insert c k v =
  match lookup k (c_indexes c) with
  | Some _ => (CErr ValueAlreadyPresent, c)
  | None =>
      if cap c <? lenN v then (CErr ValueLargerThanBuffer, c) else
      match wrap_phase c v with
      | None => (CPanic, c)
      | Some (n1, c1) =>
          match write_phase c1 k v with
          | None => (CPanic, c)
          | Some (n2, c2) => (COk (n1 + n2), c2)
          end
      end
  end.
Proof.
  destruct c as [buf fp idx q full].
  unfold insert, wrap_phase, write_phase, cap. cbn [c_buffer c_fp c_indexes c_queue c_full].
  destruct (lookup k idx); [reflexivity|].
  destruct (lenN buf <? lenN v); [reflexivity|].
  destruct (lenN buf <? lenN v + fp).
  - destruct (from_begin_end fp (lenN buf)) as [rg|].
    + destruct (remove_range idx q rg) as [[[idx1 q1] n1]|]; [|reflexivity].
      cbn [c_buffer c_fp c_indexes c_queue c_full].
      destruct (write_at buf 0 (0 + lenN v) v) as [buf'|]; [|reflexivity].
      destruct (remove_range idx1 q1 _) as [[[idx2 q2] n2]|]; reflexivity.
    + cbn [c_buffer c_fp c_indexes c_queue c_full].
      destruct (write_at buf 0 (0 + lenN v) v) as [buf'|]; [|reflexivity].
      destruct (remove_range idx q _) as [[[idx2 q2] n2]|]; reflexivity.
  - cbn [c_buffer c_fp c_indexes c_queue c_full].
    destruct (write_at buf fp (fp + lenN v) v) as [buf'|]; [|reflexivity].
    destruct (remove_range idx q _) as [[[idx2 q2] n2]|]; reflexivity.
Qed.

(* ------------------------------------------------------------------ *)
(* The invariant                                                       *)
(* ------------------------------------------------------------------ *)

Record WF (c : cache) : Prop := {
  wf_nodup_q : NoDup (c_queue c);
  wf_keys : forall k, In k (c_queue c) <-> lookup k (c_indexes c) <> None;
  wf_nodup_i : NoDup (map fst (c_indexes c));
  wf_ranges : forall k r, lookup k (c_indexes c) = Some r -> r_begin r <= r_end r /\ r_end r <= cap c;
  wf_fp : c_fp c <= cap c }.

Lemma lenN_repeat {A} (x : A) n : lenN (repeat x (N.to_nat n)) = n.
Proof. unfold lenN. rewrite repeat_length. lia. Qed.

Lemma cap_new n : cap (cache_new n) = n.
Proof. unfold cap, cache_new. cbn [c_buffer]. apply lenN_repeat. Qed.

Lemma WF_new n : WF (cache_new n).
Proof.
  constructor; cbn [cache_new c_queue c_indexes c_fp map lookup].
  - constructor.
  - intros k. split; [intros []|intros H; exfalso; apply H; reflexivity].
  - constructor.
  - intros k r H. discriminate.
  - lia.
Qed.

Lemma write_at_Some buf b e v :
  b <= e -> e <= lenN buf -> lenN v = e - b ->
  write_at buf b e v = Some (firstn (N.to_nat b) buf ++ v ++ skipn (N.to_nat e) buf).
Proof.
  intros H1 H2 H3. unfold write_at.
  destruct (N.ltb_spec e b); [lia|]. destruct (N.ltb_spec (lenN buf) e); [lia|].
  destruct (N.eqb_spec (lenN v) (e - b)); [|contradiction]. reflexivity.
Qed.

Lemma write_at_inv buf b e v buf' :
  write_at buf b e v = Some buf' ->
  b <= e /\ e <= lenN buf /\ lenN v = e - b /\
  buf' = firstn (N.to_nat b) buf ++ v ++ skipn (N.to_nat e) buf.
Proof.
  unfold write_at.
  destruct (N.ltb_spec e b); [discriminate|]. destruct (N.ltb_spec (lenN buf) e); [discriminate|].
  destruct (N.eqb_spec (lenN v) (e - b)); [|discriminate]. cbn. intros E; injection E as <-.
  repeat split; assumption.
Qed.

Lemma write_at_len buf b e v buf' : write_at buf b e v = Some buf' -> lenN buf' = lenN buf.
Proof.
  intros H. apply write_at_inv in H. destruct H as (H1 & H2 & H3 & ->).
  rewrite !lenN_app. unfold lenN in *. rewrite firstn_length, skipn_length. lia.
Qed.

(* wrap phase *)
Lemma wrap_phase_WF c v :
  WF c -> lenN v <= cap c ->
  exists n1 c1, wrap_phase c v = Some (n1, c1) /\ WF c1 /\ cap c1 = cap c /\
    c_buffer c1 = c_buffer c /\
    c_fp c1 + lenN v <= cap c /\
    exists p, c_queue c = p ++ c_queue c1 /\ n1 = lenN p /\ c_indexes c1 = remove_keys p (c_indexes c).
Proof.
  intros W Hv. unfold wrap_phase.
  destruct (N.ltb_spec (cap c) (lenN v + c_fp c)) as [Hw|Hw].
  - unfold from_begin_end. destruct (N.ltb_spec (c_fp c) (cap c)) as [Hfp|Hfp].
    + destruct (remove_range_spec (c_queue c) (c_indexes c) {| r_begin := c_fp c; r_end := cap c |})
        as (p & q' & Hq & Hrr & Hp & Hq').
      { apply W. } { intros k Hk. apply W. exact Hk. }
      rewrite Hrr. eexists _, _. split; [reflexivity|].
      assert (Hnd : NoDup (p ++ q')) by (rewrite <- Hq; apply W).
      split; [|cbn [c_fp c_queue c_indexes c_buffer cap]; repeat split; try (unfold cap; reflexivity); try lia;
               exists p; repeat split; assumption].
      constructor; cbn [c_queue c_indexes c_fp c_buffer cap].
      * apply NoDup_app_remove_l in Hnd. exact Hnd.
      * intros k. split.
        -- intros Hk. rewrite lookup_remove_keys_notin.
           ++ apply W. rewrite Hq. apply in_or_app. right. exact Hk.
           ++ intros Hkp. exact (NoDup_app_disj _ _ _ Hnd Hkp Hk).
        -- intros Hk. destruct (lookup k (remove_keys p (c_indexes c))) as [r|] eqn:Hl; [|contradiction].
           apply lookup_remove_keys_Some in Hl. destruct Hl as [Hl Hnp].
           assert (Hin : In k (c_queue c)) by (apply W; rewrite Hl; discriminate).
           rewrite Hq in Hin. apply in_app_or in Hin. destruct Hin; [contradiction|assumption].
      * apply NoDup_remove_keys. apply W.
      * intros k r Hl. apply lookup_remove_keys_Some in Hl. destruct Hl as [Hl _].
        apply (wf_ranges c W k r Hl).
      * unfold cap. lia.
    + eexists _, _. split; [reflexivity|].
      split; [|cbn [c_fp c_queue c_indexes c_buffer cap]; repeat split; try (unfold cap; reflexivity); try lia;
               exists []; repeat split; reflexivity].
      constructor; cbn [c_queue c_indexes c_fp c_buffer cap]; try apply W. unfold cap; lia.
  - eexists _, _. split; [reflexivity|]. split; [exact W|].
    repeat split; try lia. exists []. repeat split; reflexivity.
Qed.

(* write phase *)
Lemma write_phase_WF c k v :
  WF c -> lookup k (c_indexes c) = None -> c_fp c + lenN v <= cap c ->
  exists n2 c2, write_phase c k v = Some (n2, c2) /\ WF c2 /\ cap c2 = cap c /\
    c_fp c2 = c_fp c + lenN v /\ c_full c2 = c_full c /\
    write_at (c_buffer c) (c_fp c) (c_fp c + lenN v) v = Some (c_buffer c2) /\
    exists p q', c_queue c = p ++ q' /\ n2 = lenN p /\ c_queue c2 = q' ++ [k] /\
      c_indexes c2 = (k, {| r_begin := c_fp c; r_end := c_fp c + lenN v |}) :: remove_keys p (c_indexes c).
Proof.
  intros W Hk Hfit. unfold write_phase.
  assert (Hwa := write_at_Some (c_buffer c) (c_fp c) (c_fp c + lenN v) v).
  rewrite Hwa by (unfold cap in Hfit; lia).
  destruct (remove_range_spec (c_queue c) (c_indexes c) {| r_begin := c_fp c; r_end := c_fp c + lenN v |})
    as (p & q' & Hq & Hrr & Hp & Hq').
  { apply W. } { intros k' Hk'. apply W. exact Hk'. }
  rewrite Hrr. eexists _, _. split; [reflexivity|].
  assert (Hnd : NoDup (p ++ q')) by (rewrite <- Hq; apply W).
  assert (Hcap : lenN (firstn (N.to_nat (c_fp c)) (c_buffer c) ++ v ++
                       skipn (N.to_nat (c_fp c + lenN v)) (c_buffer c)) = cap c).
  { eapply write_at_len. apply Hwa; unfold cap in Hfit; lia. }
  assert (Hknq : ~ In k (c_queue c)).
  { intros Hin. apply W in Hin. contradiction. }
  split; [|cbn [c_fp c_queue c_indexes c_buffer c_full cap]; repeat split; try exact Hcap;
           exists p, q'; repeat split; assumption].
  constructor; unfold cap; cbn [c_queue c_indexes c_fp c_buffer]; try rewrite Hcap.
  - apply NoDup_snoc.
    + apply NoDup_app_remove_l in Hnd. exact Hnd.
    + intros Hin. apply Hknq. rewrite Hq. apply in_or_app. right. exact Hin.
  - intros k'. cbn [lookup]. destruct (N.eqb_spec k' k) as [E|E].
    + subst k'. split; [intros _; discriminate|intros _; apply in_or_app; right; left; reflexivity].
    + split.
      * intros Hin. apply in_app_or in Hin. destruct Hin as [Hin|[Hin|[]]]; [|symmetry in Hin; contradiction].
        rewrite lookup_remove_keys_notin.
        -- apply W. rewrite Hq. apply in_or_app. right. exact Hin.
        -- intros Hkp. exact (NoDup_app_disj _ _ _ Hnd Hkp Hin).
      * intros Hl. apply in_or_app. left.
        destruct (lookup k' (remove_keys p (c_indexes c))) as [r|] eqn:Hl'; [|contradiction].
        apply lookup_remove_keys_Some in Hl'. destruct Hl' as [Hl' Hnp].
        assert (Hin : In k' (c_queue c)) by (apply W; rewrite Hl'; discriminate).
        rewrite Hq in Hin. apply in_app_or in Hin. destruct Hin; [contradiction|assumption].
  - cbn [map fst]. constructor.
    + intros Hin. apply lookup_In_fst in Hin. apply Hin.
      destruct (in_dec N.eq_dec k p) as [Hkp|Hkp].
      * apply lookup_remove_keys_in. exact Hkp.
      * rewrite lookup_remove_keys_notin by exact Hkp. exact Hk.
    + apply NoDup_remove_keys. apply W.
  - intros k' r. cbn [lookup]. destruct (N.eqb_spec k' k) as [E|E].
    + intros Hr. injection Hr as <-. cbn [r_begin r_end]. lia.
    + intros Hl. apply lookup_remove_keys_Some in Hl. destruct Hl as [Hl _].
      apply (wf_ranges c W k' r Hl).
  - exact Hfit.
Qed.

(* ------------------------------------------------------------------ *)
(* insert: the three outcomes                                          *)
(* ------------------------------------------------------------------ *)

(* inversion of a successful insertion: no hypothesis needed *)
Lemma insert_ok_inv c k v n c' :
  insert c k v = (COk n, c') ->
  lookup k (c_indexes c) = None /\ lenN v <= cap c /\
  exists n1 c1 n2, wrap_phase c v = Some (n1, c1) /\ write_phase c1 k v = Some (n2, c') /\ n = n1 + n2.
Proof.
  rewrite insert_eq.
  destruct (lookup k (c_indexes c)); [discriminate|].
  destruct (N.ltb_spec (cap c) (lenN v)); [discriminate|].
  destruct (wrap_phase c v) as [[n1 c1]|] eqn:Hwrap; [|discriminate].
  destruct (write_phase c1 k v) as [[n2 c2]|] eqn:Hwrite; [|discriminate].
  intros E. injection E as <- <-. split; [reflexivity|]. split; [assumption|].
  exists n1, c1, n2. repeat split. exact Hwrite.
Qed.

Lemma insert_err_inv c k v e c' :
  insert c k v = (CErr e, c') ->
  c' = c /\
  ((e = ValueAlreadyPresent /\ lookup k (c_indexes c) <> None) \/
   (e = ValueLargerThanBuffer /\ lookup k (c_indexes c) = None /\ cap c < lenN v)).
Proof.
  rewrite insert_eq.
  destruct (lookup k (c_indexes c)) eqn:Hl.
  { intros E. injection E as <- <-. split; [reflexivity|]. left. split; [reflexivity|discriminate]. }
  destruct (N.ltb_spec (cap c) (lenN v)).
  { intros E. injection E as <- <-. split; [reflexivity|]. right. repeat split. assumption. }
  destruct (wrap_phase c v) as [[n1 c1]|]; [|discriminate].
  destruct (write_phase c1 k v) as [[n2 c2]|]; discriminate.
Qed.

(* a successful insertion, under WF: everything the two phases do *)
Lemma insert_ok_spec c k v :
  WF c -> lookup k (c_indexes c) = None -> lenN v <= cap c ->
  exists n1 c1 n2 c2,
    wrap_phase c v = Some (n1, c1) /\ write_phase c1 k v = Some (n2, c2) /\
    insert c k v = (COk (n1 + n2), c2) /\
    WF c1 /\ WF c2 /\ lookup k (c_indexes c1) = None /\
    c_fp c1 + lenN v <= cap c1 /\ cap c1 = cap c /\ cap c2 = cap c.
Proof.
  intros W Hk Hv.
  destruct (wrap_phase_WF c v W Hv) as (n1 & c1 & Hwrap & W1 & Hcap1 & Hbuf1 & Hfit1 & p & Hq & Hn1 & Hidx1).
  assert (Hk1 : lookup k (c_indexes c1) = None).
  { rewrite Hidx1. apply lookup_remove_keys_None. exact Hk. }
  assert (Hfit1' : c_fp c1 + lenN v <= cap c1) by lia.
  destruct (write_phase_WF c1 k v W1 Hk1 Hfit1') as (n2 & c2 & Hwrite & W2 & Hcap2 & _).
  exists n1, c1, n2, c2. rewrite insert_eq, Hk, Hwrap, Hwrite.
  destruct (N.ltb_spec (cap c) (lenN v)); [lia|].
  split; [reflexivity|]. split; [reflexivity|]. split; [reflexivity|].
  split; [exact W1|]. split; [exact W2|]. split; [exact Hk1|].
  split; [exact Hfit1'|]. split; [exact Hcap1|]. lia.
Qed.

Theorem WF_insert c k v : WF c -> WF (snd (insert c k v)).
Proof.
  intros W. destruct (insert c k v) as [res c'] eqn:E. cbn [snd].
  destruct res as [n|e|].
  - destruct (insert_ok_inv _ _ _ _ _ E) as (Hk & Hv & _).
    destruct (insert_ok_spec c k v W Hk Hv) as (n1 & c1 & n2 & c2 & _ & _ & E' & _ & W2 & _).
    rewrite E in E'. injection E' as _ ->. exact W2.
  - apply insert_err_inv in E. destruct E as [-> _]. exact W.
  - rewrite insert_eq in E.
    destruct (lookup k (c_indexes c)); [discriminate|].
    destruct (cap c <? lenN v); [discriminate|].
    destruct (wrap_phase c v) as [[n1 c1]|]; [|injection E as <-; exact W].
    destruct (write_phase c1 k v) as [[n2 c2]|]; [discriminate|injection E as <-; exact W].
Qed.

Theorem insert_no_panic c k v : WF c -> fst (insert c k v) <> CPanic.
Proof.
  intros W. destruct (lookup k (c_indexes c)) as [r|] eqn:Hk.
  - rewrite insert_eq, Hk. discriminate.
  - destruct (N.ltb_spec (cap c) (lenN v)) as [Hv|Hv].
    + rewrite insert_eq, Hk. destruct (N.ltb_spec (cap c) (lenN v)); [discriminate|lia].
    + destruct (insert_ok_spec c k v W Hk Hv) as (n1 & c1 & n2 & c2 & _ & _ & E & _).
      rewrite E. discriminate.
Qed.

Theorem get_no_panic c k : WF c -> get c k <> CPanic.
Proof.
  intros W. unfold get. destruct (lookup k (c_indexes c)) as [r|] eqn:Hk; [|discriminate].
  destruct (wf_ranges c W k r Hk) as [H1 H2].
  destruct (N.ltb_spec (r_end r) (r_begin r)); [lia|]. destruct (N.ltb_spec (cap c) (r_end r)); [lia|].
  discriminate.
Qed.

(* under WF: retrievable = present in the index = present in the queue *)
Lemma get_Some_iff c k : WF c -> ((exists v, get c k = COk (Some v)) <-> lookup k (c_indexes c) <> None).
Proof.
  intros W. unfold get. destruct (lookup k (c_indexes c)) as [r|] eqn:Hk.
  - destruct (wf_ranges c W k r Hk) as [H1 H2].
    destruct (N.ltb_spec (r_end r) (r_begin r)); [lia|]. destruct (N.ltb_spec (cap c) (r_end r)); [lia|].
    cbn [orb]. split; [intros _; discriminate|intros _; eexists; reflexivity].
  - split; [intros [v Hv]; discriminate|intros H; contradiction].
Qed.

Lemma retrievable_iff_lookup c k : WF c -> (retrievable c k <-> lookup k (c_indexes c) <> None).
Proof. intros W. unfold retrievable. apply get_Some_iff. exact W. Qed.

Lemma retrievable_iff_queue c k : WF c -> (retrievable c k <-> In k (c_queue c)).
Proof. intros W. rewrite retrievable_iff_lookup by exact W. symmetry. apply W. Qed.

(* the capacity never changes (no hypothesis) *)
Lemma wrap_phase_cap c v n1 c1 : wrap_phase c v = Some (n1, c1) -> cap c1 = cap c.
Proof.
  unfold wrap_phase. destruct (cap c <? lenN v + c_fp c).
  - destruct (from_begin_end (c_fp c) (cap c)) as [rg|].
    + destruct (remove_range (c_indexes c) (c_queue c) rg) as [[[idx q] n]|]; [|discriminate].
      intros E. injection E as <- <-. reflexivity.
    + intros E. injection E as <- <-. reflexivity.
  - intros E. injection E as <- <-. reflexivity.
Qed.

Lemma write_phase_cap c k v n2 c2 : write_phase c k v = Some (n2, c2) -> cap c2 = cap c.
Proof.
  unfold write_phase. destruct (write_at (c_buffer c) (c_fp c) (c_fp c + lenN v) v) as [buf|] eqn:Hw; [|discriminate].
  destruct (remove_range (c_indexes c) (c_queue c) _) as [[[idx q] n]|]; [|discriminate].
  intros E. injection E as <- <-. unfold cap. cbn [c_buffer]. eapply write_at_len. exact Hw.
Qed.

Theorem cap_insert c k v : cap (snd (insert c k v)) = cap c.
Proof.
  rewrite insert_eq.
  destruct (lookup k (c_indexes c)); [reflexivity|].
  destruct (cap c <? lenN v); [reflexivity|].
  destruct (wrap_phase c v) as [[n1 c1]|] eqn:Hwrap; [|reflexivity].
  destruct (write_phase c1 k v) as [[n2 c2]|] eqn:Hwrite; [|reflexivity].
  cbn [snd]. rewrite (write_phase_cap _ _ _ _ _ Hwrite). apply (wrap_phase_cap _ _ _ _ Hwrap).
Qed.

(* ------------------------------------------------------------------ *)
(* exec / run                                                          *)
(* ------------------------------------------------------------------ *)

Lemma exec_app c hist ops more :
  exec c hist (ops ++ more) =
  match exec c hist ops with Some (c', hist') => exec c' hist' more | None => None end.
Proof.
  revert c hist. induction ops as [|[k v] ops IH]; intros c hist; cbn [app exec]; [reflexivity|].
  destruct (insert c k v) as [[n|e|] c']; [apply IH|apply IH|reflexivity].
Qed.

(* induction principle for invariants along [exec] *)
Lemma exec_ind_inv (P : cache -> list ins -> Prop) :
  (forall c hist k v n c', P c hist -> insert c k v = (COk n, c') -> P c' (hist ++ [(k, v)])) ->
  forall ops c hist c' hist', P c hist -> exec c hist ops = Some (c', hist') -> P c' hist'.
Proof.
  intros Hstep. induction ops as [|[k v] ops IH]; intros c hist c' hist' HP E; cbn [exec] in E.
  - injection E as <- <-. exact HP.
  - destruct (insert c k v) as [[n|e|] c1] eqn:Hi.
    + eapply IH; [|exact E]. eapply Hstep; eassumption.
    + apply insert_err_inv in Hi. destruct Hi as [-> _]. eapply IH; eassumption.
    + discriminate.
Qed.

Lemma exec_WF ops : forall c hist c' hist', WF c -> exec c hist ops = Some (c', hist') -> WF c'.
Proof.
  intros c hist c' hist' W E.
  apply (exec_ind_inv (fun c _ => WF c)) with (ops := ops) (c := c) (hist := hist) (hist' := hist'); [|exact W|exact E].
  intros c0 hist0 k v n c0' W0 Hi. pose proof (WF_insert c0 k v W0) as H. rewrite Hi in H. exact H.
Qed.

Lemma exec_no_panic ops : forall c hist, WF c -> exec c hist ops <> None.
Proof.
  induction ops as [|[k v] ops IH]; intros c hist W; cbn [exec]; [discriminate|].
  pose proof (insert_no_panic c k v W) as Hnp. pose proof (WF_insert c k v W) as W'.
  destruct (insert c k v) as [[n|e|] c']; cbn [fst snd] in *; [apply IH; exact W'|apply IH; exact W'|contradiction].
Qed.

Theorem cache_no_panic : forall capacity ops, run capacity ops <> None.
Proof. intros capacity ops. apply exec_no_panic. apply WF_new. Qed.

Theorem reachable_WF c hist : reachable c hist -> WF c.
Proof. intros (capacity & ops & E). eapply exec_WF; [apply WF_new|exact E]. Qed.

Lemma exec_cap ops : forall c hist c' hist', exec c hist ops = Some (c', hist') -> cap c' = cap c.
Proof.
  induction ops as [|[k v] ops IH]; intros c hist c' hist' E; cbn [exec] in E.
  - injection E as <- <-. reflexivity.
  - pose proof (cap_insert c k v) as Hc.
    destruct (insert c k v) as [[n|e|] c1]; cbn [snd] in Hc; [| |discriminate];
      rewrite (IH _ _ _ _ E); exact Hc.
Qed.

Theorem cap_const capacity ops c hist : run capacity ops = Some (c, hist) -> cap c = capacity.
Proof. intros E. apply exec_cap in E. rewrite E. apply cap_new. Qed.

(* reachable states, in the form the task states it *)
Corollary cap_const_reachable c hist : reachable c hist -> exists capacity, cap c = capacity /\ exists ops, run capacity ops = Some (c, hist).
Proof. intros (capacity & ops & E). exists capacity. split; [eapply cap_const; exact E|exists ops; exact E]. Qed.

Corollary reachable_get_no_panic c hist k : reachable c hist -> get c k <> CPanic.
Proof. intros R. apply get_no_panic. eapply reachable_WF. exact R. Qed.
