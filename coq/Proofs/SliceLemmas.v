(* Proofs/SliceLemmas.v — characterising lemmas of the slice operations. *)
From BS Require Import Base.Slice.
From Coq Require Import ZifyN ZifyNat ZifyBool.
Open Scope N_scope.

Lemma s_len_lt_spec s n : s_len_lt s n = (s_len s <? n).
Proof.
  unfold s_len_lt, s_len. rewrite splitN_spec.
  destruct (N.leb_spec n (lenN (bytes s))); destruct (N.ltb_spec (lenN (bytes s)) n); try lia; reflexivity.
Qed.

Lemma splitN_0 {A} (l : list A) : splitN l 0 = Some ([], l).
Proof. destruct l; reflexivity. Qed.

Lemma splitN_all {A} (l : list A) : splitN l (lenN l) = Some (l, []).
Proof. rewrite <- (app_nil_r l) at 1. apply splitN_app. Qed.

Lemma splitN_app_lt {A} (a b : list A) n : lenN a + lenN b < n -> splitN (a ++ b) n = None.
Proof. intros H. apply splitN_None. rewrite lenN_app. exact H. Qed.

(* generic decomposition: every successful splitN is an append *)
Lemma splitN_inv {A} (l : list A) n a b : splitN l n = Some (a, b) -> l = a ++ b /\ lenN a = n.
Proof. apply splitN_Some. Qed.

Lemma splitN_le {A} (l : list A) n : n <= lenN l -> exists a b, splitN l n = Some (a, b) /\ l = a ++ b /\ lenN a = n.
Proof.
  intros H. destruct (splitN l n) as [[a b]|] eqn:E.
  - exists a, b. split; [reflexivity|]. apply splitN_Some in E. exact E.
  - apply splitN_None in E. lia.
Qed.

Lemma app_inv_length {A} (a b c d : list A) : length a = length c -> a ++ b = c ++ d -> a = c /\ b = d.
Proof.
  revert c. induction a as [|x a IH]; intros [|y c] L' E; cbn in *; try discriminate.
  - split; [reflexivity|exact E].
  - injection E as -> E. injection L' as L'. destruct (IH c L' E) as [-> ->]. split; reflexivity.
Qed.

Lemma app_inv_len {A} (a b c d : list A) : a ++ b = c ++ d -> lenN a = lenN c -> a = c /\ b = d.
Proof. intros E L. apply app_inv_length; [unfold lenN in L; lia|exact E]. Qed.

Lemma splitN_app_exact {A} (a b : list A) n : n = lenN a -> splitN (a ++ b) n = Some (a, b).
Proof. intros ->. apply splitN_app. Qed.

(* ---- slice operations on a slice presented as prefix ++ suffix ---- *)
Section Ops.
Variable p : N.
Variables a b : list byte.

Lemma s_split_app : s_split {| off := p; bytes := a ++ b |} (lenN a)
  = Ok ({| off := p; bytes := a |}, {| off := p + lenN a; bytes := b |}).
Proof. unfold s_split. cbn [bytes off]. rewrite splitN_app. reflexivity. Qed.

Lemma s_from_app : s_from {| off := p; bytes := a ++ b |} (lenN a) = Ok {| off := p + lenN a; bytes := b |}.
Proof. unfold s_from. cbn [bytes off]. rewrite splitN_app. reflexivity. Qed.

Lemma s_to_app : s_to {| off := p; bytes := a ++ b |} (lenN a) = Ok {| off := p; bytes := a |}.
Proof. unfold s_to. cbn [bytes off]. rewrite splitN_app. reflexivity. Qed.

Lemma s_len_lt_app n : s_len_lt {| off := p; bytes := a ++ b |} n = (lenN a + lenN b <? n).
Proof. rewrite s_len_lt_spec. unfold s_len. cbn [bytes]. rewrite lenN_app. reflexivity. Qed.
End Ops.

Lemma s_get_range_app p (a m b : list byte) :
  s_get_range {| off := p; bytes := a ++ m ++ b |} (lenN a) (lenN a + lenN m)
  = Some {| off := p + lenN a; bytes := m |}.
Proof.
  unfold s_get_range. cbn [bytes off].
  destruct (N.ltb_spec (lenN a + lenN m) (lenN a)); [lia|].
  rewrite splitN_app. replace (lenN a + lenN m - lenN a) with (lenN m) by lia.
  rewrite splitN_app. reflexivity.
Qed.

Lemma s_get_range_short s x y : s_len s < y -> s_get_range s x y = None.
Proof.
  intros H. unfold s_get_range. destruct (N.ltb_spec y x); [reflexivity|].
  destruct (splitN (bytes s) x) as [[u v]|] eqn:E; [|reflexivity].
  apply splitN_Some in E. destruct E as [E L].
  destruct (splitN v (y - x)) as [[m r]|] eqn:E2; [|reflexivity].
  apply splitN_Some in E2. destruct E2 as [E2 L2].
  unfold s_len in H. rewrite E, E2, !lenN_app in H. lia.
Qed.

Lemma s_get_to_app p (a b : list byte) :
  s_get_to {| off := p; bytes := a ++ b |} (lenN a) = Some {| off := p; bytes := a |}.
Proof.
  unfold s_get_to. pose proof (s_get_range_app p [] a b) as H. cbn [app] in H.
  change (lenN (@nil byte)) with 0 in H. rewrite N.add_0_l, N.add_0_r in H. exact H.
Qed.

Lemma s_index_app p (a : list byte) x b :
  s_index {| off := p; bytes := a ++ x :: b |} (lenN a) = Ok x.
Proof. unfold s_index. cbn [bytes]. rewrite splitN_app. reflexivity. Qed.
