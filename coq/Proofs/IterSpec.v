(* Proofs/IterSpec.v — TxOuts::iter(): iterating a parsed output list yields exactly the outputs
   the visitor saw, with exact remaining length at every step (C17). *)
From BS Require Import Impl.Visit Impl.Access Ref.Grammar Ref.MetaDefs Proofs.SliceLemmas Proofs.Numbers Proofs.Len Proofs.CsDec
  Proofs.ImplRefLeaf Proofs.ImplRefLists Proofs.SpecLemmas Proofs.RefSpec.
From Coq Require Import ZifyN ZifyNat ZifyBool.
Open Scope N_scope.

(* parsing one encoded output *)
Lemma parse_txout_enc j q a rest : wf_txout a -> In63 (enc_txout a ++ rest) ->
  exists T, parse_txout (sl q (enc_txout a ++ rest)) = Ok {| remaining := sl (q + lenN (enc_txout a)) rest; parsed := T |} /\
            to_slice T = sl q (enc_txout a) /\ txout_event j T = Ok (ev_txout j q a).
Proof.
  intros Hwf H63.
  pose proof (r_txout_ev_complete j never q a rest [] Hwf) as RC.
  change {| pos := q; inp := enc_txout a ++ rest; hi := [] |} with (st0 q (enc_txout a ++ rest) []) in RC.
  rewrite r_txout_ev_l in RC. rewrite (parse_txout_l q _ H63).
  destruct (l_txout (enc_txout a ++ rest)) as [[[v cb] spk] r|e] eqn:L; [|discriminate].
  destruct (l_txout_ok _ _ _ _ _ L) as [Hb [Lv _]].
  unfold st0 in RC.
  assert (Hr : r = rest) by congruence.
  assert (He : ev_of_txout j q v cb spk = ev_txout j q a) by congruence.
  assert (Hq : q + txout_len cb spk = q + lenN (enc_txout a)) by congruence.
  subst r. clear RC.
  exists (mk_txout q v cb spk). split; [|split].
  - f_equal. f_equal. f_equal. lia.
  - unfold mk_txout. cbn [to_slice]. f_equal.
    apply app_inv_len in Hb; [symmetry; exact (proj1 Hb)|]. unfold txout_len in Hq. rewrite !lenN_app. lia.
  - rewrite (txout_event_ok j q v cb spk Lv). f_equal. exact He.
Qed.

Definition iter_at (x : txouts) (m off : N) : txout_iter := {| it_elements := m; it_offset := off; it_outs := x |}.

(* the items the iterator yields from a given position: (object, len() afterwards) *)
Fixpoint iter_spec (j q m : N) (l : list a_txout) (res : list (txout * N)) : Prop :=
  match l, res with
  | [], [] => True
  | a :: l', (T, n) :: res' =>
      to_slice T = sl q (enc_txout a) /\ txout_event j T = Ok (ev_txout j q a) /\ n = m - 1 /\
      iter_spec (j + 1) (q + lenN (enc_txout a)) (m - 1) l' res'
  | _, _ => False
  end.

Lemma iter_collect_spec p whole x : tos_slice x = sl p whole -> In63 whole ->
  forall l pre j m fuel, whole = pre ++ flat_map enc_txout l -> Forall wf_txout l ->
  (length (flat_map enc_txout l) < fuel)%nat ->
  exists res, iter_collect fuel (iter_at x m (lenN pre)) = Ok res /\ iter_spec j (p + lenN pre) m l res /\
              length res = length l.
Proof.
  intros Hx H63. induction l as [|a l IH]; intros pre j m fuel Hw Hwf Hf.
  - destruct fuel as [|f]; [cbn in Hf; lia|]. cbn [iter_collect flat_map] in *. rewrite app_nil_r in Hw.
    unfold iter_next, iter_at. cbn [it_outs it_offset]. rewrite Hx. unfold s_len, sl. cbn [bytes]. rewrite <- Hw.
    destruct (N.leb_spec (lenN whole) (lenN whole)); [|lia]. cbn [obind].
    exists []. repeat split.
  - destruct fuel as [|f]; [lia|]. cbn [iter_collect flat_map] in *.
    inversion Hwf as [|a' l' Ha Hl]; subst a' l'.
    unfold iter_next, iter_at. cbn [it_outs it_offset it_elements]. rewrite Hx. unfold s_len. cbn [bytes sl].
    assert (Hne : 1 <= lenN (enc_txout a)). { rewrite lenN_enc_txout. lia. }
    destruct (N.leb_spec (lenN whole) (lenN pre)) as [Hbad|_].
    { rewrite Hw, !lenN_app in Hbad. lia. }
    assert (SF : s_from (sl p whole) (lenN pre) = Ok (sl (p + lenN pre) (enc_txout a ++ flat_map enc_txout l))).
    { rewrite Hw. unfold sl. apply s_from_app. }
    rewrite SF. cbn [obind].
    assert (H63' : In63 (enc_txout a ++ flat_map enc_txout l)).
    { rewrite Hw in H63. apply In63_suffix in H63. exact H63. }
    destruct (parse_txout_enc j (p + lenN pre) a (flat_map enc_txout l) Ha H63') as [T [PT [HS HE]]].
    rewrite PT. cbn [expect obind].
    unfold consumed_of. cbn [parsed remaining]. rewrite HS. unfold s_len. cbn [bytes sl]. unfold uadd.
    unfold In63, TWO63 in H63. rewrite Hw, !lenN_app in H63.
    destruct (N.ltb_spec (lenN pre + lenN (enc_txout a)) TWO64) as [_|Hbad]; [|unfold TWO64 in Hbad; lia].
    cbn [obind].
    assert (Hw' : whole = (pre ++ enc_txout a) ++ flat_map enc_txout l). { rewrite Hw, app_assoc. reflexivity. }
    assert (Hf' : (length (flat_map enc_txout l) < f)%nat).
    { rewrite app_length in Hf. unfold lenN in Hne. lia. }
    destruct (IH (pre ++ enc_txout a) (j + 1) (sat_sub m 1) f Hw' Hl Hf') as [res [IC [IS IL]]].
    unfold iter_at in IC. rewrite lenN_app in IC, IS. rewrite IC. cbn [obind].
    exists ((T, iter_len {| it_elements := sat_sub m 1; it_offset := lenN pre + lenN (enc_txout a); it_outs := x |}) :: res).
    split; [reflexivity|split].
    + cbn [iter_spec iter_len it_elements]. unfold sat_sub in *. repeat split; try assumption.
      replace (p + lenN pre + lenN (enc_txout a)) with (p + (lenN pre + lenN (enc_txout a))) by lia. exact IS.
    + cbn [length]. rewrite IL. reflexivity.
Qed.

(* the iterator of the output list [l] located at offset p *)
Theorem iter_of_parsed_outputs p l : wf_txouts l -> In63 (enc_txouts l) ->
  let x := {| tos_slice := sl p (enc_txouts l); tos_n := lenN l |} in
  exists it res, txouts_iter x = Ok it /\ iter_len it = lenN l /\ iter_size_hint it = (lenN l, Some (lenN l)) /\
    iter_collect (S (length (enc_txouts l))) it = Ok res /\
    iter_spec 0 (p + cs_width (lenN l)) (lenN l) l res /\ length res = length l.
Proof.
  intros [Hn Hwf] H63 x. unfold enc_txouts, enc_list in *.
  unfold txouts_iter. cbn [tos_slice x]. unfold scan_len0. rewrite scan_len_spec. cbn [bytes sl].
  assert (Hc : 0 + cs_width (lenN l) < TWO64). { unfold cs_width, TWO64. repeat match goal with |- context [if ?b then _ else _] => destruct b end; lia. }
  rewrite (scan_len_complete (lenN l) (flat_map enc_txout l) 0 Hn Hc). cbn [expect obind]. rewrite N.add_0_l.
  assert (Hf : (length (flat_map enc_txout l) < S (length (cs_enc (lenN l) ++ flat_map enc_txout l)))%nat).
  { rewrite app_length. lia. }
  destruct (iter_collect_spec p (cs_enc (lenN l) ++ flat_map enc_txout l) x eq_refl H63 l (cs_enc (lenN l)) 0 (lenN l) _ eq_refl Hwf Hf)
    as [res [IC [IS IL]]].
  unfold iter_at in IC. rewrite (cs_enc_length (lenN l) Hn) in IC, IS.
  eexists. exists res. split; [reflexivity|]. cbn [iter_len iter_size_hint it_elements].
  split; [reflexivity|split; [reflexivity|split; [exact IC|split; [exact IS|exact IL]]]].
Qed.
