(* Proofs/SpecTransfer.v — the entry points decode exactly the wire format:
   generic consequences of "reference decoder sound and complete w.r.t. Spec/Wire.v"
   transferred to the Rust-faithful model, and the instances for the twelve entry points. *)
From BS Require Import Impl.Visit Ref.Grammar Ref.MetaDefs Ref.Meta1 Ref.Meta2 Proofs.SliceLemmas Proofs.CsDec
  Proofs.ImplRefLeaf Proofs.ImplRefLists Proofs.ImplRefWitness Proofs.ImplRefTx Proofs.ImplRefBlock Proofs.Transfer Proofs.Entries
  Proofs.SpecLemmas Proofs.RefSpec.
From Coq Require Import ZifyN ZifyNat ZifyBool.
Open Scope N_scope.

Record espec (E : entry) := {
  s_ast : Type;                         (* abstract syntax of the object *)
  s_proj : e_A E -> s_ast;
  s_wf : s_ast -> Prop;
  s_enc : s_ast -> list byte;
  s_trav : N -> s_ast -> list event;    (* in-order traversal at a given offset, oldest first *)
  s_complete : forall p a rest h, s_wf a ->
    exists x, e_r E never (st0 p (s_enc a ++ rest) h)
              = Done x (st0 (p + lenN (s_enc a)) rest (rev (s_trav p a) ++ h)) /\ s_proj x = a;
  s_sound : forall s x s', e_r E never s = Done x s' ->
    s_wf (s_proj x) /\ inp s = s_enc (s_proj x) ++ inp s' /\ pos s' = pos s + lenN (s_enc (s_proj x)) /\
    hi s' = rev (s_trav (pos s) (s_proj x)) ++ hi s;
  s_indep : Indep (e_r E);
}.
Arguments s_ast {E}. Arguments s_proj {E}. Arguments s_wf {E}. Arguments s_enc {E}. Arguments s_trav {E}.
Arguments s_complete {E}. Arguments s_sound {E}. Arguments s_indep {E}.

Section SpecTransfer.
Variable E : entry.
Variable S : espec E.
Let D := e_D E.
Let visit := e_visit E.

(* C03 (=>) and C04: a successful parse (never-breaking visitor) consumed exactly a well-formed
   encoding, and delivered exactly its in-order traversal *)
Theorem T_ok_is_encoding p b h pr h' : D b -> visit never (sl p b) h = (Ok pr, h') ->
  exists a, s_wf S a /\ b = s_enc S a ++ bytes (remaining pr) /\
            e_sl E (parsed pr) = sl p (s_enc S a) /\ off (remaining pr) = p + lenN (s_enc S a) /\
            h' = rev (s_trav S p a) ++ h /\
            exists x, s_proj S x = a /\ parsed pr = e_mk E (sl p (s_enc S a)) x h'.
Proof.
  intros HD HV. destruct (visit_ok_inv E never p b h pr h' HD HV) as [x [s' [c [R [Hb [Hp [Hh ->]]]]]]].
  destruct (s_sound S _ x s' R) as [Hwf [Hi [Hpos Hhist]]]. cbn [inp pos hi st0] in Hi, Hpos, Hhist.
  exists (s_proj S x). cbn [remaining parsed bytes off sl].
  assert (Hc : c = s_enc S (s_proj S x)).
  { rewrite Hb in Hi. apply app_inv_len in Hi; [exact (proj1 Hi)|]. lia. }
  rewrite (e_sl_mk E), <- Hc. repeat split; try assumption.
  - rewrite <- Hh. exact Hhist.
  - exists x. rewrite Hh. split; reflexivity.
Qed.

(* the same under ANY visitor whenever the visit succeeds *)
Theorem T_ok_is_encoding_any brk p b h pr h' : D b -> visit brk (sl p b) h = (Ok pr, h') ->
  exists a, s_wf S a /\ b = s_enc S a ++ bytes (remaining pr) /\
            e_sl E (parsed pr) = sl p (s_enc S a) /\ off (remaining pr) = p + lenN (s_enc S a) /\
            h' = rev (s_trav S p a) ++ h /\
            exists x, s_proj S x = a /\ parsed pr = e_mk E (sl p (s_enc S a)) x h'.
Proof.
  intros HD HV. destruct (visit_ok_inv E brk p b h pr h' HD HV) as [x [s' [c [R [Hb [Hp [Hh ->]]]]]]].
  pose proof (Indep_Done _ (s_indep S) brk _ x s' R) as Rn.
  destruct (s_sound S _ x s' Rn) as [Hwf [Hi [Hpos Hhist]]]. cbn [inp pos hi st0] in Hi, Hpos, Hhist.
  exists (s_proj S x). cbn [remaining parsed bytes off sl].
  assert (Hc : c = s_enc S (s_proj S x)).
  { rewrite Hb in Hi. apply app_inv_len in Hi; [exact (proj1 Hi)|]. lia. }
  rewrite (e_sl_mk E), <- Hc. repeat split; try assumption.
  - rewrite <- Hh. exact Hhist.
  - exists x. rewrite Hh. split; reflexivity.
Qed.

(* C03 (<=) and C04: every well-formed encoding followed by anything is accepted, consuming exactly
   the encoding, delivering exactly the traversal *)
Theorem T_encoding_is_ok p a rest h : s_wf S a -> D (s_enc S a ++ rest) ->
  exists x, s_proj S x = a /\
  visit never (sl p (s_enc S a ++ rest)) h =
  (Ok {| remaining := sl (p + lenN (s_enc S a)) rest;
         parsed := e_mk E (sl p (s_enc S a)) x (rev (s_trav S p a) ++ h) |},
   rev (s_trav S p a) ++ h).
Proof.
  intros Hwf HD. destruct (s_complete S p a rest h Hwf) as [x [R Hx]].
  exists x. split; [exact Hx|]. unfold visit.
  rewrite (visit_of_done E never p _ h x _ (s_enc S a) HD R); [reflexivity|reflexivity|reflexivity].
Qed.

(* C03: accept iff the input begins with a well-formed encoding *)
Theorem T_accepts_iff p b h : D b ->
  ((exists pr h', visit never (sl p b) h = (Ok pr, h')) <-> (exists a rest, s_wf S a /\ b = s_enc S a ++ rest)).
Proof.
  intros HD. split.
  - intros [pr [h' HV]]. destruct (T_ok_is_encoding p b h pr h' HD HV) as [a [Hwf [Hb _]]].
    exists a, (bytes (remaining pr)). split; assumption.
  - intros [a [rest [Hwf Hb]]]. subst b. destruct (T_encoding_is_ok p a rest h Hwf HD) as [x [_ HV]].
    eexists. eexists. exact HV.
Qed.

(* C04: for an input that fails to parse, the callbacks delivered before the error are a prefix of the
   traversal of every well-formed structure the input is a prefix of *)
Theorem T_failing_trace_is_prefix p b h e tr a x rest : s_wf S a -> D (s_enc S a ++ rest) ->
  s_enc S a ++ rest = b ++ x -> visit never (sl p b) h = (Err e, tr) ->
  ext_hist tr (rev (s_trav S p a) ++ h).
Proof.
  intros Hwf HD Hb HV. rewrite Hb in HD.
  pose proof (T_trace_prefix E never p b x h HD) as HT. fold visit in HT. rewrite HV in HT. cbn [snd] in HT.
  rewrite <- Hb in HT, HD.
  destruct (T_encoding_is_ok p a rest h Hwf HD) as [y [_ HV2]]. rewrite HV2 in HT. exact HT.
Qed.
End SpecTransfer.

(* ---------------- instances ---------------- *)
Lemma st0_eq p b h : {| pos := p; inp := b; hi := h |} = st0 p b h.
Proof. reflexivity. Qed.

Definition spec_of_decodes (E : entry) (wf : e_A E -> Prop) enc trav
  (Hd : decodes (e_r E) wf enc trav) (Hi : Indep (e_r E)) : espec E :=
  {| s_ast := e_A E; s_proj := fun x => x; s_wf := wf; s_enc := enc; s_trav := trav;
     s_complete := fun p a rest h Hwf => ex_intro _ a (conj (proj1 Hd p a rest h Hwf) eq_refl);
     s_sound := proj2 Hd; s_indep := Hi |}.

Definition S_txins : espec E_txins := spec_of_decodes E_txins wf_txins enc_txins trav_txins decodes_txins r_txins_Indep.
Definition S_txouts : espec E_txouts := spec_of_decodes E_txouts wf_txouts enc_txouts trav_txouts decodes_txouts r_txouts_Indep.
Definition S_witness : espec E_witness := spec_of_decodes E_witness wf_witness enc_witness trav_witness decodes_witness r_witness_Indep.
Definition S_transaction : espec E_transaction := spec_of_decodes E_transaction wf_tx enc_tx trav_tx decodes_tx r_tx_Indep.
Definition S_header : espec E_header := spec_of_decodes E_header wf_header enc_header trav_header decodes_header r_header_Indep.
Definition S_block : espec E_block := spec_of_decodes E_block wf_block enc_block trav_block decodes_block r_block_Indep.
Definition S_outpoint : espec E_outpoint :=
  spec_of_decodes E_outpoint wf_outpoint enc_outpoint no_events
    (conj (fun p a rest h Hwf => r_outpoint_complete never p a rest h Hwf)
          (fun s a s' R => match r_outpoint_sound never s a s' R with
                           | conj A (conj B (conj C Dd)) => conj A (conj B (conj C Dd)) end))
    r_outpoint_Indep.

Definition S_script : espec E_script.
Proof.
  refine (@Build_espec E_script (list byte) (@snd N (list byte)) wf_script enc_script no_events _ _ r_script_pos_Indep).
  - intros p a rest h Hwf. exists (script_data_off p a, a). split; [|reflexivity].
    exact (r_script_pos_complete never p a rest h Hwf).
  - intros s [d a] s' R. destruct (r_script_pos_sound never s d a s' R) as [A [B [_ [C Dd]]]].
    cbn [snd]. split; [exact A|split; [exact B|split; [exact C|exact Dd]]].
Defined.

Definition S_txin : espec E_txin.
Proof.
  refine (@Build_espec E_txin a_txin (@fst a_txin event) wf_txin enc_txin no_events _ _ (r_txin_ev_Indep 0)).
  - intros p a rest h Hwf. exists (a, ev_txin 0 p a). split; [|reflexivity].
    exact (r_txin_ev_complete 0 never p a rest h Hwf).
  - intros s [a e] s' R. destruct (r_txin_ev_sound 0 never s a e s' R) as [A [B [_ [C Dd]]]].
    cbn [fst]. split; [exact A|split; [exact B|split; [exact C|exact Dd]]].
Defined.

Definition S_txout : espec E_txout.
Proof.
  refine (@Build_espec E_txout a_txout (@fst a_txout event) wf_txout enc_txout no_events _ _ (r_txout_ev_Indep 0)).
  - intros p a rest h Hwf. exists (a, ev_txout 0 p a). split; [|reflexivity].
    exact (r_txout_ev_complete 0 never p a rest h Hwf).
  - intros s [a e] s' R. destruct (r_txout_ev_sound 0 never s a e s' R) as [A [B [_ [C Dd]]]].
    cbn [fst]. split; [exact A|split; [exact B|split; [exact C|exact Dd]]].
Defined.

(* Witnesses(n): well-formed = n well-formed witnesses *)
Definition S_witnesses (n : N) : espec (E_witnesses n).
Proof.
  refine (@Build_espec (E_witnesses n) (list a_witness) (fun x => x) (fun ws => wf_witnesses ws /\ lenN ws = n)
            enc_witnesses trav_witnesses _ _ (r_witnesses_Indep n)).
  - intros p a rest h [Hwf <-]. exists a. split; [|reflexivity]. exact (r_witnesses_complete p a rest h Hwf).
  - intros s ws s' R. destruct (r_witnesses_sound n s ws s' R) as [A [B [C [Dd F]]]].
    split; [split; [exact A|exact B]|split; [exact C|split; [exact Dd|exact F]]].
Defined.

(* every entry point has a specification *)
Inductive specified : forall E : entry, espec E -> Prop :=
| sp_script : specified E_script S_script | sp_outpoint : specified E_outpoint S_outpoint
| sp_txin : specified E_txin S_txin | sp_txout : specified E_txout S_txout
| sp_txins : specified E_txins S_txins | sp_txouts : specified E_txouts S_txouts
| sp_witness : specified E_witness S_witness | sp_witnesses : forall n, specified (E_witnesses n) (S_witnesses n)
| sp_transaction : specified E_transaction S_transaction | sp_header : specified E_header S_header
| sp_block : specified E_block S_block.
