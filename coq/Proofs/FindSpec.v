(* Proofs/FindSpec.v — bsl::FindTransaction made concrete (C19): with SHA-256 inside the model, the visitor's
   predicate is "the double SHA-256 of the three preimage windows, read from the input, equals the wanted id".
   On every well-formed block the search stops at the FIRST transaction whose txid (double SHA-256 of its
   witness-stripped serialization) is the wanted id and hands back exactly that transaction's bytes; if no
   transaction has that id the visit is the never-breaking one and nothing is found. *)
From BS Require Import Impl.Visit Impl.Access Spec.Wire Ref.MetaDefs Proofs.SliceLemmas Proofs.Sha256Stream
  Proofs.ImplRefLeaf Proofs.ImplRefTx Proofs.Transfer Proofs.Entries Proofs.SpecLemmas Proofs.RefSpec Proofs.SpecTransfer
  Proofs.TxSpec Proofs.ObjSpec Proofs.Interop Proofs.HashSpec Proofs.Examples.
From Coq Require Import ZifyN ZifyNat ZifyBool.
Open Scope N_scope.

Lemma bytes_eqb_eq a b : bytes_eqb a b = true <-> a = b.
Proof.
  revert b; induction a as [|x a IH]; intros [|y b]; cbn [bytes_eqb].
  - split; reflexivity.
  - split; discriminate.
  - split; discriminate.
  - rewrite Bool.andb_true_iff, N.eqb_eq, IH. split.
    + intros [H1 H2]. apply b2n_inj in H1. subst. reflexivity.
    + intros H. injection H as -> ->. split; reflexivity.
Qed.

(* a transaction has the wanted id *)
Definition has_id (id : list byte) (t : a_tx) : bool := bytes_eqb (sha256d (enc_stripped t)) id.

(* ---- windows of the input ---- *)
Lemma wbytes_mid inp (x y z : list byte) q n : inp = x ++ y ++ z -> lenN x = q -> lenN y = n ->
  wbytes inp (q, n) = y.
Proof.
  intros -> <- <-. unfold wbytes. cbn [fst snd]. unfold lenN. rewrite !Nat2N.id.
  rewrite skipn_app, Nat.sub_diag, skipn_all. cbn [skipn app].
  rewrite firstn_app, Nat.sub_diag, firstn_all. cbn [firstn]. apply app_nil_r.
Qed.

Lemma wbytes_00 inp : wbytes inp (0, 0) = [].
Proof. reflexivity. Qed.

(* the visitor's predicate on the transaction callback of a transaction serialized at offset q of the input *)
Lemma find_pred_ev_tx inp id q t pre post : wf_tx t -> inp = pre ++ enc_tx t ++ post -> lenN pre = q ->
  find_pred inp id (ev_tx q t) = has_id id t.
Proof.
  intros _ Hinp Hq. unfold has_id, ev_tx, enc_stripped. pose proof (enc_tx_pos t) as Hpos.
  unfold enc_tx in *. destruct (at_form t) as [|ws]; cbn [find_pred].
  - unfold pw. cbn [snd].
    match goal with |- context [N.eqb ?u 0] => destruct (N.eqb_spec u 0) as [E|_]; [lia|] end.
    rewrite wbytes_00, !app_nil_r.
    rewrite (wbytes_mid inp pre _ post q _ Hinp Hq eq_refl).
    rewrite <- !app_assoc. reflexivity.
  - set (v := enc_i32 (at_version t)) in *. set (ins := enc_txins (at_ins t)) in *.
    set (outs := enc_txouts (at_outs t)) in *. set (lt := le_enc 4 (at_locktime t)) in *.
    set (wi := enc_witnesses ws) in *.
    assert (Lv : lenN v = 4) by apply lenN_enc_i32.
    assert (Ll : lenN lt = 4) by apply lenN_le_enc4.
    rewrite (wbytes_mid inp pre v (([x00; x01] ++ ins ++ outs ++ wi) ++ lt ++ post) q 4).
    + rewrite (wbytes_mid inp (pre ++ v ++ [x00; x01]) (ins ++ outs) (wi ++ lt ++ post)).
      * rewrite (wbytes_mid inp (pre ++ v ++ [x00; x01] ++ ins ++ outs ++ wi) lt post).
        -- rewrite <- !app_assoc. reflexivity.
        -- rewrite Hinp. rewrite <- !app_assoc. reflexivity.
        -- rewrite !lenN_app in *. change (lenN [x00; x01]) with 2 in *. lia.
        -- exact Ll.
      * rewrite Hinp. rewrite <- !app_assoc. reflexivity.
      * rewrite !lenN_app. change (lenN [x00; x01]) with 2. lia.
      * apply lenN_app.
    + rewrite Hinp. rewrite <- !app_assoc. reflexivity.
    + exact Hq.
    + exact Lv.
Qed.

(* ---- only the last callback of a transaction's traversal is a transaction callback ---- *)
Lemma is_tx_ev_tx q t : is_tx (ev_tx q t) = true.
Proof. unfold ev_tx. destruct (at_form t); reflexivity. Qed.

Lemma trav_items_notx {A} (ev : N -> N -> A -> list event) enc :
  (forall i q x e, In e (ev i q x) -> is_tx e = false) ->
  forall l i p e, In e (trav_items ev enc i p l) -> is_tx e = false.
Proof.
  intros Hev l; induction l as [|x l IH]; intros i p e; cbn [trav_items]; [intros []|].
  intros HI. apply in_app_or in HI. destruct HI as [HI|HI]; [exact (Hev _ _ _ _ HI)|exact (IH _ _ _ HI)].
Qed.

Lemma trav_txins_notx p l e : In e (trav_txins p l) -> is_tx e = false.
Proof.
  unfold trav_txins. intros [<-|HI]; [reflexivity|]. revert HI. apply trav_items_notx.
  intros i q x e' [<-|[]]. reflexivity.
Qed.

Lemma trav_txouts_notx p l e : In e (trav_txouts p l) -> is_tx e = false.
Proof.
  unfold trav_txouts. intros [<-|HI]; [reflexivity|]. revert HI. apply trav_items_notx.
  intros i q x e' [<-|[]]. reflexivity.
Qed.

Lemma trav_witness_notx p w e : In e (trav_witness p w) -> is_tx e = false.
Proof.
  unfold trav_witness. intros [<-|HI]; [reflexivity|]. revert HI. apply trav_items_notx.
  intros i q x e' [<-|[]]. reflexivity.
Qed.

Lemma trav_witnesses_notx p ws e : In e (trav_witnesses p ws) -> is_tx e = false.
Proof.
  unfold trav_witnesses. apply trav_items_notx.
  intros i q x e' [<-|HI]; [reflexivity|]. apply in_app_or in HI. destruct HI as [HI|[<-|[]]]; [|reflexivity].
  exact (trav_witness_notx _ _ _ HI).
Qed.

Lemma trav_tx_split q t : exists l, trav_tx q t = l ++ [ev_tx q t] /\ forall e, In e l -> is_tx e = false.
Proof.
  unfold trav_tx. destruct (at_form t) as [|ws].
  - eexists. split; [rewrite app_assoc; reflexivity|].
    intros e HI. apply in_app_or in HI. destruct HI as [HI|HI];
      [exact (trav_txins_notx _ _ _ HI)|exact (trav_txouts_notx _ _ _ HI)].
  - eexists. split; [rewrite !app_assoc; reflexivity|].
    intros e HI. apply in_app_or in HI. destruct HI as [HI|HI]; [|exact (trav_witnesses_notx _ _ _ HI)].
    apply in_app_or in HI. destruct HI as [HI|HI]; [|exact (trav_txouts_notx _ _ _ HI)].
    apply in_app_or in HI. destruct HI as [[<-|[]]|HI]; [reflexivity|exact (trav_txins_notx _ _ _ HI)].
Qed.

Lemma upto_first_app_notx m l d : (forall e, In e l -> is_tx e = false) ->
  upto_first m (l ++ d) = option_map (app l) (upto_first m d).
Proof.
  induction l as [|e l IH]; intros Hl; cbn [app].
  - destruct (upto_first m d); reflexivity.
  - cbn [upto_first]. rewrite (Hl e (or_introl eq_refl)). cbn [andb].
    rewrite IH by (intros x Hx; apply Hl; right; exact Hx).
    destruct (upto_first m d); reflexivity.
Qed.

(* ---- the search over the transaction list ---- *)
Lemma find_items inp id : forall txs i q pre post, Forall wf_tx txs ->
  inp = pre ++ flat_map enc_tx txs ++ post -> lenN pre = q ->
  let d := trav_items (fun _ q t => trav_tx q t) enc_tx i q txs in
  match find (has_id id) txs with
  | None => upto_first (find_pred inp id) d = None
  | Some t => exists before after l q' post' pre' post'',
      txs = before ++ t :: after /\ forallb (fun x => negb (has_id id x)) before = true /\ has_id id t = true /\
      d = l ++ ev_tx q' t :: post' /\ upto_first (find_pred inp id) d = Some (l ++ [ev_tx q' t]) /\
      inp = pre' ++ enc_tx t ++ post'' /\ lenN pre' = q'
  end.
Proof.
  induction txs as [|x txs IH]; intros i q pre post Hwf Hinp Hq; cbn zeta; cbn [find trav_items]; [reflexivity|].
  inversion Hwf as [|x' l' Hx Hwf']; subst x' l'.
  rewrite flat_map_cons, <- app_assoc in Hinp.
  pose proof (find_pred_ev_tx inp id q x pre _ Hx Hinp Hq) as Hm.
  destruct (trav_tx_split q x) as [l0 [Hl0 Hn0]]. rewrite Hl0, <- app_assoc.
  rewrite upto_first_app_notx by exact Hn0. cbn [app upto_first]. rewrite is_tx_ev_tx, Hm. cbn [andb].
  destruct (has_id id x) eqn:Hid.
  - exists [], txs, l0, q, (trav_items (fun _ q t => trav_tx q t) enc_tx (i + 1) (q + lenN (enc_tx x)) txs), pre, (flat_map enc_tx txs ++ post).
    repeat split; try assumption; reflexivity.
  - assert (Hinp' : inp = (pre ++ enc_tx x) ++ flat_map enc_tx txs ++ post).
    { rewrite Hinp, <- app_assoc. reflexivity. }
    assert (Hq' : lenN (pre ++ enc_tx x) = q + lenN (enc_tx x)). { rewrite lenN_app, Hq. reflexivity. }
    specialize (IH (i + 1) (q + lenN (enc_tx x)) (pre ++ enc_tx x) post Hwf' Hinp' Hq'). cbn zeta in IH.
    destruct (find (has_id id) txs) as [t|].
    + destruct IH as [before [after [l [q' [post' [pre' [post'' [H1 [H2 [H3 [H4 [H5 [H6 H7]]]]]]]]]]]]].
      exists (x :: before), after, (l0 ++ ev_tx q x :: l), q', post', pre', post''.
      split; [rewrite H1; reflexivity|]. split; [cbn [forallb]; rewrite Hid, H2; reflexivity|].
      split; [exact H3|]. split; [rewrite H4, <- app_assoc; reflexivity|].
      split; [|split; assumption]. rewrite H5. cbn [option_map]. rewrite <- app_assoc. reflexivity.
    + rewrite IH. reflexivity.
Qed.

(* the whole block *)
Lemma find_block a rest id : wf_block a -> InLen (enc_block a ++ rest) ->
  let b := enc_block a ++ rest in
  match find (has_id id) (ab_txs a) with
  | None => exists pr, visit_block (find_oracle b id) (top b) [] = (Ok pr, rev (trav_block 0 a)) /\ bytes (remaining pr) = rest
  | Some t => exists before after l q post pre' post'',
      ab_txs a = before ++ t :: after /\ forallb (fun x => negb (has_id id x)) before = true /\ has_id id t = true /\
      trav_block 0 a = l ++ ev_tx q t :: post /\
      visit_block (find_oracle b id) (top b) [] = (Err VisitBreak, rev (l ++ [ev_tx q t])) /\
      b = pre' ++ enc_tx t ++ post'' /\ lenN pre' = q
  end.
Proof.
  intros Hwf HD b.
  destruct (T_encoding_is_ok E_block S_block 0 a rest [] Hwf HD) as [x [_ HV]].
  cbn [s_enc S_block spec_of_decodes s_trav e_visit E_block] in HV. fold b in HV.
  destruct (T_break E_block (brk_find (find_pred b id)) 0 b [] HD) as [d [Hd Hb]].
  cbn [e_visit E_block] in Hd, Hb. rewrite HV in Hd, Hb. cbn [snd] in Hd.
  rewrite !app_nil_r in Hd. apply (f_equal (@rev event)) in Hd. rewrite !rev_involutive in Hd. subst d.
  rewrite cut_find in Hb.
  change (visit_block (find_oracle b id) (top b) []) with (visit_block (brk_find (find_pred b id)) (sl 0 b) []).
  rewrite Hb. clear Hb HV.
  destruct Hwf as [Hh [_ Htxs]].
  assert (L80 : lenN (enc_header (ab_header a)) = 80).
  { destruct Hh as [_ [Lp [Lm _]]]. rewrite lenN_enc_header, Lp, Lm. reflexivity. }
  assert (Hinp : b = (enc_header (ab_header a) ++ cs_enc (lenN (ab_txs a))) ++ flat_map enc_tx (ab_txs a) ++ rest).
  { unfold b, enc_block, enc_list. rewrite <- !app_assoc. reflexivity. }
  assert (Hq : lenN (enc_header (ab_header a) ++ cs_enc (lenN (ab_txs a))) = 0 + 80 + cs_width (lenN (ab_txs a))).
  { rewrite lenN_app, L80, cs_enc_length'. reflexivity. }
  pose proof (find_items b id (ab_txs a) 0 _ _ rest Htxs Hinp Hq) as HF. cbn zeta in HF.
  unfold trav_block. cbn [upto_first is_tx ev_header andb].
  destruct (find (has_id id) (ab_txs a)) as [t|].
  - destruct HF as [before [after [l [q' [post' [pre' [post'' [H1 [H2 [H3 [H4 [H5 [H6 H7]]]]]]]]]]]]].
    exists before, after, (ev_header 0 (ab_header a) :: EBlockBegin (lenN (ab_txs a)) :: l), q', post', pre', post''.
    split; [exact H1|]. split; [exact H2|]. split; [exact H3|]. split; [rewrite H4; reflexivity|].
    split; [|split; assumption]. rewrite H5. rewrite app_nil_r. reflexivity.
  - rewrite HF. eexists. split; [rewrite app_nil_r; reflexivity|reflexivity].
Qed.

Theorem find_transaction_spec a rest id : wf_block a -> InLen (enc_block a ++ rest) ->
  let b := enc_block a ++ rest in
  match find (has_id id) (ab_txs a) with
  | Some t => find_transaction b id = (Err VisitBreak, Some (enc_tx t))
  | None => exists pr, find_transaction b id = (Ok pr, None) /\ bytes (remaining pr) = rest
  end.
Proof.
  intros Hwf HD b. pose proof (find_block a rest id Hwf HD) as HF. cbn zeta in HF. fold b in HF.
  destruct (find (has_id id) (ab_txs a)) as [t|].
  - destruct HF as [before [after [l [q [post [pre' [post'' [_ [_ [_ [_ [HV [Hb Hq]]]]]]]]]]]]].
    unfold find_transaction. rewrite HV, rev_unit.
    assert (E : exists v lt pa pb pc w, ev_tx q t = ETransaction (q, lenN (enc_tx t)) v lt pa pb pc w).
    { unfold ev_tx. destruct (at_form t); repeat eexists. }
    destruct E as [v [lt [pa [pb [pc [w E]]]]]]. rewrite E.
    rewrite (wbytes_mid b pre' (enc_tx t) post'' q _ Hb Hq eq_refl). reflexivity.
  - destruct HF as [pr [HV Hr]]. exists pr. unfold find_transaction. rewrite HV. split; [reflexivity|exact Hr].
Qed.

(* the callbacks delivered: the traversal of the block up to and including the callback of the found
   transaction, which is the first one with that id; nothing after it *)
Theorem find_transaction_trace a rest id t : wf_block a -> InLen (enc_block a ++ rest) ->
  let b := enc_block a ++ rest in
  find (has_id id) (ab_txs a) = Some t ->
  exists before after q l post,
    ab_txs a = before ++ t :: after /\ forallb (fun x => negb (has_id id x)) before = true /\ has_id id t = true /\
    trav_block 0 a = l ++ ev_tx q t :: post /\
    visit_block (find_oracle b id) (top b) [] = (Err VisitBreak, rev (l ++ [ev_tx q t])).
Proof.
  intros Hwf HD b Hfind. pose proof (find_block a rest id Hwf HD) as HF. cbn zeta in HF. fold b in HF.
  rewrite Hfind in HF.
  destruct HF as [before [after [l [q [post [pre' [post'' [H1 [H2 [H3 [H4 [HV _]]]]]]]]]]]].
  exists before, after, q, l, post. repeat split; assumption.
Qed.
