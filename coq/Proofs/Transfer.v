(* Proofs/Transfer.v — generic transfer of the reference-parser metatheory to
   the Rust-faithful model through a refinement [visit = embed (ref)]. *)
From BS Require Import Impl.Visit Ref.Grammar Ref.MetaDefs Ref.Meta1 Ref.Meta2 Proofs.SliceLemmas Proofs.CsDec
  Proofs.ImplRefLeaf Proofs.ImplRefLists.
From Coq Require Import ZifyN ZifyNat ZifyBool.
Open Scope N_scope.

(* the parsed object is built from: the view (consumed bytes at the start offset),
   the decoded abstract syntax and the final history *)
Definition embedG {A B} (mk : slice -> A -> hist -> B) (p : N) (b : list byte) (o : outcome A)
  : out (presult B) * hist :=
  match o with
  | Done a s' => (Ok {| remaining := sl (pos s') (inp s'); parsed := mk (view p b s') a (hi s') |}, hi s')
  | Fail e h' => (Err e, h')
  | Stuck => (OutOfFuel, [])
  end.

Record entry := {
  e_A : Type;                                        (* abstract syntax *)
  e_B : Type;                                        (* Rust-shaped parsed object *)
  e_D : list byte -> Prop;                           (* admissible inputs (length bound) *)
  e_D_prefix : forall b x, e_D (b ++ x) -> e_D b;
  e_visit : oracle -> slice -> M (presult e_B);      (* the Rust-faithful function *)
  e_r : P e_A;                                       (* the streaming reference decoder *)
  e_mk : slice -> e_A -> hist -> e_B;
  e_sl : e_B -> slice;                               (* AsRef<[u8]> *)
  e_sl_mk : forall v a hh, e_sl (e_mk v a hh) = v;
  e_ref : forall brk p b h, e_D b -> e_visit brk (sl p b) h = embedG e_mk p b (e_r brk (st0 p b h));
  e_good : Good e_r;
  e_breaks : BreakLaw e_r;
  e_ext : OracleExt e_r;
  e_nsb : NoSpontaneousBreak e_r;
  e_bound : Bounded 1 e_r;
}.

Section Transfer.
Variable E : entry.
Let D := e_D E.
Let visit := e_visit E.
Let r := e_r E.

Lemma good_parts : Consumes r /\ NoStuck r /\ Mono r /\ Local r.
Proof. exact (e_good E). Qed.

(* C01: a value or an error, never a panic, never out of fuel *)
Theorem T_total brk p b h : D b ->
  (exists pr h', visit brk (sl p b) h = (Ok pr, h')) \/ (exists e h', visit brk (sl p b) h = (Err e, h')).
Proof.
  intros HD. unfold visit. rewrite (e_ref E brk p b h HD).
  destruct good_parts as [_ [NS _]].
  destruct (e_r E brk (st0 p b h)) as [a s'|e h'|] eqn:R.
  - left. eexists. eexists. reflexivity.
  - right. eexists. eexists. reflexivity.
  - exfalso. exact (NS brk _ R).
Qed.

(* inversion of a successful visit *)
Lemma visit_ok_inv brk p b h pr h' : D b -> visit brk (sl p b) h = (Ok pr, h') ->
  exists a s' c, r brk (st0 p b h) = Done a s' /\ b = c ++ inp s' /\ pos s' = p + lenN c /\ hi s' = h' /\
                 pr = {| remaining := sl (pos s') (inp s'); parsed := e_mk E (sl p c) a (hi s') |}.
Proof.
  intros HD. unfold visit. rewrite (e_ref E brk p b h HD). fold r.
  destruct (r brk (st0 p b h)) as [a s'|e hh|] eqn:R; cbn [embedG]; intros HH; try discriminate.
  injection HH as <- <-.
  destruct good_parts as [C _].
  destruct (ok_consumed r C brk p b h a s' R) as [c [Hb [Hp _]]].
  exists a, s', c. repeat split; try assumption.
  rewrite Hb at 1. rewrite (view_app p c s' Hp). reflexivity.
Qed.

Lemma visit_err_inv brk p b h e h' : D b -> visit brk (sl p b) h = (Err e, h') ->
  r brk (st0 p b h) = Fail e h'.
Proof.
  intros HD. unfold visit. rewrite (e_ref E brk p b h HD). fold r.
  destruct (r brk (st0 p b h)) as [a s'|e0 hh|] eqn:R; cbn [embedG]; intros HH; try discriminate.
  injection HH as <- <-. reflexivity.
Qed.

Lemma visit_of_done brk p b h a s' c : D b -> r brk (st0 p b h) = Done a s' -> b = c ++ inp s' -> pos s' = p + lenN c ->
  visit brk (sl p b) h = (Ok {| remaining := sl (pos s') (inp s'); parsed := e_mk E (sl p c) a (hi s') |}, hi s').
Proof.
  intros HD R Hb Hp. unfold visit. rewrite (e_ref E brk p b h HD). fold r. rewrite R. cbn [embedG].
  rewrite Hb at 1. rewrite (view_app p c s' Hp). reflexivity.
Qed.

(* C02: the view is b[..k] at the same offset, the remainder is b[k..] *)
Theorem T_split brk p b h pr h' : D b -> visit brk (sl p b) h = (Ok pr, h') ->
  exists c, b = c ++ bytes (remaining pr) /\ e_sl E (parsed pr) = sl p c /\
            off (remaining pr) = p + lenN c.
Proof.
  intros HD HV. destruct (visit_ok_inv brk p b h pr h' HD HV) as [a [s' [c [R [Hb [Hp [Hh ->]]]]]]].
  exists c. cbn [remaining parsed bytes off sl]. rewrite (e_sl_mk E). repeat split; assumption.
Qed.

(* C02/C07: followed by anything, the same object, the extra bytes in the remainder *)
Theorem T_extend brk p b h pr h' x : D (b ++ x) -> visit brk (sl p b) h = (Ok pr, h') ->
  visit brk (sl p (b ++ x)) h =
  (Ok {| remaining := sl (off (remaining pr)) (bytes (remaining pr) ++ x); parsed := parsed pr |}, h').
Proof.
  intros HDx HV. pose proof (e_D_prefix E b x HDx) as HD.
  destruct (visit_ok_inv brk p b h pr h' HD HV) as [a [s' [c [R [Hb [Hp [Hh ->]]]]]]].
  pose proof (good_ok_extend r (e_good E) brk p b h a s' R x) as R2.
  change {| pos := p; inp := b ++ x; hi := h |} with (st0 p (b ++ x) h) in R2.
  assert (Hb2 : b ++ x = c ++ inp (st_app s' x)). { cbn [st_app inp]. rewrite Hb at 1. rewrite <- app_assoc. reflexivity. }
  rewrite (visit_of_done brk p (b ++ x) h a (st_app s' x) c HDx R2 Hb2 Hp).
  cbn [st_app pos inp hi remaining parsed off bytes sl]. rewrite Hh. reflexivity.
Qed.

(* C15: parsing exactly the consumed bytes gives the same object and an empty remainder *)
Theorem T_exact brk p b h pr h' : D b -> visit brk (sl p b) h = (Ok pr, h') ->
  visit brk (sl p (bytes (e_sl E (parsed pr)))) h =
  (Ok {| remaining := sl (off (remaining pr)) []; parsed := parsed pr |}, h').
Proof.
  intros HD HV. destruct (visit_ok_inv brk p b h pr h' HD HV) as [a [s' [c [R [Hb [Hp [Hh ->]]]]]]].
  cbn [parsed remaining off sl]. rewrite (e_sl_mk E). cbn [bytes sl].
  pose proof (good_ok_exact r (e_good E) brk p b h a s' c R Hb) as R2.
  change {| pos := p; inp := c; hi := h |} with (st0 p c h) in R2.
  assert (HDc : D c). { rewrite Hb in HD. exact (e_D_prefix E c _ HD). }
  assert (Hc2 : c = c ++ inp {| pos := pos s'; inp := []; hi := hi s' |}). { cbn [inp]. rewrite app_nil_r. reflexivity. }
  rewrite (visit_of_done brk p c h a _ c HDc R2 Hc2 Hp). cbn [pos inp hi]. rewrite Hh. reflexivity.
Qed.

(* C07: any shorter prefix of the consumed bytes yields MoreBytesNeeded *)
Theorem T_shorter brk p b h pr h' c' rr : D b -> visit brk (sl p b) h = (Ok pr, h') ->
  bytes (e_sl E (parsed pr)) = c' ++ rr -> rr <> [] ->
  exists h'', visit brk (sl p c') h = (Err MoreBytesNeeded, h'') /\ ext_hist h'' h'.
Proof.
  intros HD HV Hc Hrr. destruct (visit_ok_inv brk p b h pr h' HD HV) as [a [s' [c [R [Hb [Hp [Hh ->]]]]]]].
  cbn [parsed] in Hc. rewrite (e_sl_mk E) in Hc. cbn [bytes sl] in Hc.
  destruct (good_shorter_more r (e_good E) brk p b h a s' c R Hb c' rr Hc Hrr) as [h'' [R2 Hext]].
  exists h''. split; [|rewrite <- Hh; exact Hext].
  assert (HDc : D c'). { rewrite Hb, Hc, <- app_assoc in HD. exact (e_D_prefix E c' _ HD). }
  unfold visit. rewrite (e_ref E brk p c' h HDc). fold r.
  change {| pos := p; inp := c'; hi := h |} with (st0 p c' h) in R2. rewrite R2. reflexivity.
Qed.

(* C07: errors other than MoreBytesNeeded are final *)
Theorem T_final brk p b h e h' x : D (b ++ x) -> visit brk (sl p b) h = (Err e, h') -> e <> MoreBytesNeeded ->
  visit brk (sl p (b ++ x)) h = (Err e, h').
Proof.
  intros HDx HV He. pose proof (e_D_prefix E b x HDx) as HD.
  pose proof (visit_err_inv brk p b h e h' HD HV) as R.
  pose proof (good_final_error r (e_good E) brk p b h e h' R He x) as R2.
  unfold visit. rewrite (e_ref E brk p (b ++ x) h HDx). fold r.
  change {| pos := p; inp := b ++ x; hi := h |} with (st0 p (b ++ x) h) in R2. rewrite R2. reflexivity.
Qed.

(* C07: MoreBytesNeeded is closed under taking prefixes *)
Theorem T_more_prefix brk p b' rr h h1 : D (b' ++ rr) -> visit brk (sl p (b' ++ rr)) h = (Err MoreBytesNeeded, h1) ->
  exists h'', visit brk (sl p b') h = (Err MoreBytesNeeded, h'') /\ ext_hist h'' h1.
Proof.
  intros HD HV. pose proof (visit_err_inv brk p _ h _ h1 HD HV) as R.
  destruct (good_more_prefix r (e_good E) brk p (b' ++ rr) h h1 R b' rr eq_refl) as [h'' [R2 Hext]].
  exists h''. split; [|exact Hext].
  pose proof (e_D_prefix E b' rr HD) as HD'.
  unfold visit. rewrite (e_ref E brk p b' h HD'). fold r.
  change {| pos := p; inp := b'; hi := h |} with (st0 p b' h) in R2. rewrite R2. reflexivity.
Qed.

(* C07: the callbacks delivered on a prefix are a prefix of the callbacks on the whole input *)
Theorem T_trace_prefix brk p b' rr h : D (b' ++ rr) ->
  ext_hist (snd (visit brk (sl p b') h)) (snd (visit brk (sl p (b' ++ rr)) h)).
Proof.
  intros HD. pose proof (e_D_prefix E b' rr HD) as HD'.
  unfold visit. rewrite (e_ref E brk p b' h HD'), (e_ref E brk p (b' ++ rr) h HD). fold r.
  destruct good_parts as [_ [NS _]].
  destruct (r brk (st0 p b' h)) as [a1 s1|e1 h1|] eqn:R1; [| |exfalso; exact (NS brk _ R1)];
  destruct (r brk (st0 p (b' ++ rr) h)) as [a2 s2|e2 h2|] eqn:R2; try (exfalso; exact (NS brk _ R2));
  cbn [embedG snd];
  apply (good_trace_prefix r (e_good E) brk p b' rr h); unfold st0 in R1, R2; rewrite ?R1, ?R2; reflexivity.
Qed.

(* C09: the run under any visitor is the never-breaking run cut at the first Break *)
Theorem T_break brk p b h : D b ->
  exists d, snd (visit never (sl p b) h) = rev d ++ h /\
            visit brk (sl p b) h = match cut brk h d with
                                   | Some hb => (Err VisitBreak, hb)
                                   | None => visit never (sl p b) h
                                   end.
Proof.
  intros HD. unfold visit. rewrite (e_ref E brk p b h HD), (e_ref E never p b h HD). fold r.
  destruct (e_breaks E brk (st0 p b h)) as [d [Hh Hb]]. fold r in Hh, Hb. cbn [hi st0] in Hh, Hb.
  exists d. rewrite Hb.
  destruct good_parts as [_ [NS _]].
  destruct (r never (st0 p b h)) as [a s'|e h'|] eqn:R; [| |exfalso; exact (NS never _ R)]; cbn [out_hist] in Hh; injection Hh as Hh;
  cbn [embedG snd]; (split; [exact Hh|]); destruct (cut brk h d); reflexivity.
Qed.

(* C15: a visitor that never breaks gives the result of the never-breaking visit (= parse) *)
Theorem T_nonbreaking brk p b h : D b -> (forall hh e, breakable e = true -> brk hh e = false) ->
  visit brk (sl p b) h = visit never (sl p b) h.
Proof.
  intros HD Hn. unfold visit. rewrite (e_ref E brk p b h HD), (e_ref E never p b h HD).
  rewrite (nonbreaking_same_ext (e_r E) (e_ext E) brk (st0 p b h) Hn). reflexivity.
Qed.

(* C09/C14: VisitBreak is never produced when the visitor never breaks *)
Theorem T_never_no_break p b h h' : D b -> visit never (sl p b) h <> (Err VisitBreak, h').
Proof.
  intros HD. unfold visit. rewrite (e_ref E never p b h HD).
  destruct (e_r E never (st0 p b h)) as [a s'|e hh|] eqn:R; cbn [embedG]; try discriminate.
  intros HH. injection HH as -> ->. exact (e_nsb E _ _ R).
Qed.

(* C01: the number of callbacks is bounded by 3 * len + 1 *)
Theorem T_bound brk p b : D b -> lenN (snd (visit brk (sl p b) [])) <= 3 * lenN b + 1.
Proof.
  intros HD. unfold visit. rewrite (e_ref E brk p b [] HD).
  pose proof (Bounded_run 1 (e_r E) (e_bound E) brk p b) as HB. unfold run_ref in HB. fold (st0 p b []) in HB.
  destruct (e_r E brk (st0 p b [])) as [a s'|e hh|]; cbn [embedG snd]; [lia|exact HB|].
  change (lenN (@nil event)) with 0. lia.
Qed.
End Transfer.
