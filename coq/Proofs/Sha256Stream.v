(* Proofs/Sha256Stream.v — the streaming engine of Base/Sha256.v computes the one-shot function whatever
   the chunking (the law the C10 theorems used to take as a hypothesis), and the function is pinned to
   FIPS 180-4 by test vectors evaluated by the kernel. *)
From BS Require Import Base.Bytes Base.Sha256.
From Coq Require Import ZifyN ZifyNat ZifyBool.
Open Scope N_scope.

Lemma absorb_n_add n m s l :
  absorb_n (n + m) s l = absorb_n m (fst (absorb_n n s l)) (snd (absorb_n n s l)).
Proof.
  revert s l; induction n as [|n IH]; intros s l; cbn [Nat.add absorb_n fst snd]; [reflexivity|]. apply IH.
Qed.

Lemma absorb_n_length n s l : length (snd (absorb_n n s l)) = (length l - 64 * n)%nat.
Proof.
  revert s l; induction n as [|n IH]; intros s l; cbn [absorb_n snd]; [lia|].
  rewrite IH, skipn_length. lia.
Qed.

Lemma absorb_n_app n s l d : (64 * n <= length l)%nat ->
  absorb_n n s (l ++ d) = (fst (absorb_n n s l), snd (absorb_n n s l) ++ d).
Proof.
  revert s l; induction n as [|n IH]; intros s l Hl; cbn [absorb_n fst snd]; [reflexivity|].
  assert (E1 : firstn 64 (l ++ d) = firstn 64 l).
  { rewrite firstn_app. replace (64 - length l)%nat with O by lia. cbn [firstn]. apply app_nil_r. }
  assert (E2 : skipn 64 (l ++ d) = skipn 64 l ++ d).
  { rewrite skipn_app. replace (64 - length l)%nat with O by lia. reflexivity. }
  rewrite E1, E2. apply IH. rewrite skipn_length. lia.
Qed.

(* feeding [m] and then [d] block by block is feeding [m ++ d] *)
Lemma absorb_app s m d :
  absorb (fst (absorb s m)) (snd (absorb s m) ++ d) = absorb s (m ++ d).
Proof.
  unfold absorb. set (k := (length m / 64)%nat).
  assert (Hk : (64 * k <= length m)%nat) by (subst k; lia).
  pose proof (absorb_n_length k s m) as Lr.
  set (s' := fst (absorb_n k s m)) in *. set (r := snd (absorb_n k s m)) in *.
  rewrite !app_length.
  replace ((length m + length d) / 64)%nat with (k + (length r + length d) / 64)%nat.
  2:{ rewrite Lr. subst k. lia. }
  rewrite absorb_n_add, (absorb_n_app k s m d Hk). cbn [fst snd]. reflexivity.
Qed.

(* the engine that has been fed exactly the bytes [m] *)
Definition eng_of (m : list byte) : engine :=
  {| e_state := fst (absorb H256 m); e_buf := snd (absorb H256 m); e_total := lenN m |}.

Lemma eng_of_nil : sha_init = eng_of [].
Proof. reflexivity. Qed.

Lemma sha_update_eng_of m d : sha_update (eng_of m) d = eng_of (m ++ d).
Proof.
  unfold sha_update, eng_of. cbn [e_state e_buf e_total]. rewrite absorb_app.
  destruct (absorb H256 (m ++ d)) as [s r]. cbn [fst snd]. rewrite lenN_app. reflexivity.
Qed.

Lemma sha_finish_eng_of m : sha_finish (eng_of m) = sha256 m.
Proof. unfold sha_finish, eng_of, sha256. cbn [e_state e_buf e_total]. rewrite absorb_app. reflexivity. Qed.

(* any chunking *)
Theorem sha_stream_chunks : forall chunks,
  sha_finish (fold_left sha_update chunks sha_init) = sha256 (concat chunks).
Proof.
  intros chunks. rewrite eng_of_nil.
  assert (G : forall m, fold_left sha_update chunks (eng_of m) = eng_of (m ++ concat chunks)).
  { induction chunks as [|c t IH]; intros m; cbn [fold_left concat]; [rewrite app_nil_r; reflexivity|].
    rewrite sha_update_eng_of, IH, <- app_assoc. reflexivity. }
  rewrite G. cbn [app]. apply sha_finish_eng_of.
Qed.

(* the three-part form used by Transaction::txid / txid_sha2 *)
Theorem sha_stream3 : forall a b c,
  sha_finish (sha_update (sha_update (sha_update sha_init a) b) c) = sha256 (a ++ b ++ c).
Proof.
  intros a b c. pose proof (sha_stream_chunks [a; b; c]) as G. cbn [fold_left concat] in G.
  rewrite app_nil_r in G. exact G.
Qed.

Theorem sha_stream3_d : forall a b c,
  sha_finish_d (sha_update (sha_update (sha_update sha_init a) b) c) = sha256d (a ++ b ++ c).
Proof. intros a b c. unfold sha_finish_d, sha256d. rewrite sha_stream3. reflexivity. Qed.

(* the digest is always 32 bytes *)
Lemma add_states_length a b : length (add_states a b) = Nat.min (length a) (length b).
Proof. revert b; induction a as [|x a IH]; intros [|y b]; cbn [add_states length]; try reflexivity. rewrite IH. reflexivity. Qed.

Lemma round_length s kw : length (round s kw) = length s.
Proof.
  unfold round. destruct s as [|a [|b [|c [|d [|e [|f [|g [|h [|i t]]]]]]]]]; reflexivity.
Qed.

Lemma fold_round_length l s : length (fold_left round l s) = length s.
Proof. revert s; induction l as [|x l IH]; intros s; cbn [fold_left]; [reflexivity|]. rewrite IH. apply round_length. Qed.

Lemma process_block_length s blk : length (process_block s blk) = length s.
Proof. unfold process_block. rewrite add_states_length, fold_round_length. apply Nat.min_id. Qed.

Lemma absorb_n_state_length n s l : length (fst (absorb_n n s l)) = length s.
Proof.
  revert s l; induction n as [|n IH]; intros s l; cbn [absorb_n fst]; [reflexivity|].
  rewrite IH. apply process_block_length.
Qed.

Lemma digest_length s : length (digest s) = (4 * length s)%nat.
Proof.
  unfold digest. induction s as [|x s IH]; cbn [flat_map length]; [reflexivity|].
  rewrite app_length, IH. unfold be_enc. rewrite rev_length, le_enc_length. lia.
Qed.

Theorem sha256_length m : length (sha256 m) = 32%nat.
Proof. unfold sha256, absorb. rewrite digest_length, absorb_n_state_length. reflexivity. Qed.

(* ---- test vectors (FIPS 180-4 / NIST CAVS), evaluated by the kernel ---- *)
Definition hex_of (l : list byte) : list N := map b2n l.

(* SHA-256("") = e3b0c442 98fc1c14 9afbf4c8 996fb924 27ae41e4 649b934c a495991b 7852b855 *)
Example sha256_empty : hex_of (sha256 []) =
  [0xe3;0xb0;0xc4;0x42;0x98;0xfc;0x1c;0x14;0x9a;0xfb;0xf4;0xc8;0x99;0x6f;0xb9;0x24;
   0x27;0xae;0x41;0xe4;0x64;0x9b;0x93;0x4c;0xa4;0x95;0x99;0x1b;0x78;0x52;0xb8;0x55].
Proof. vm_compute. reflexivity. Qed.

(* SHA-256("abc") = ba7816bf 8f01cfea 414140de 5dae2223 b00361a3 96177a9c b410ff61 f20015ad *)
Example sha256_abc : hex_of (sha256 [x61; x62; x63]) =
  [0xba;0x78;0x16;0xbf;0x8f;0x01;0xcf;0xea;0x41;0x41;0x40;0xde;0x5d;0xae;0x22;0x23;
   0xb0;0x03;0x61;0xa3;0x96;0x17;0x7a;0x9c;0xb4;0x10;0xff;0x61;0xf2;0x00;0x15;0xad].
Proof. vm_compute. reflexivity. Qed.

(* the 56-byte two-block message "abcdbcdecdefdefgefghfghighijhijkijkljklmklmnlmnomnopnopq":
   248d6a61 d20638b8 e5c02693 0c3e6039 a33ce459 64ff2167 f6ecedd4 19db06c1 *)
Definition msg56 : list byte :=
  [x61;x62;x63;x64; x62;x63;x64;x65; x63;x64;x65;x66; x64;x65;x66;x67; x65;x66;x67;x68; x66;x67;x68;x69;
   x67;x68;x69;x6a; x68;x69;x6a;x6b; x69;x6a;x6b;x6c; x6a;x6b;x6c;x6d; x6b;x6c;x6d;x6e; x6c;x6d;x6e;x6f;
   x6d;x6e;x6f;x70; x6e;x6f;x70;x71].
Example sha256_two_blocks : hex_of (sha256 msg56) =
  [0x24;0x8d;0x6a;0x61;0xd2;0x06;0x38;0xb8;0xe5;0xc0;0x26;0x93;0x0c;0x3e;0x60;0x39;
   0xa3;0x3c;0xe4;0x59;0x64;0xff;0x21;0x67;0xf6;0xec;0xed;0xd4;0x19;0xdb;0x06;0xc1].
Proof. vm_compute. reflexivity. Qed.

(* one million bytes 'a' would be the third NIST vector; 1000 zero bytes (16 blocks) keeps the build fast:
   SHA-256(0^1000) = 541b3e9d aa09b20b f85fa273 e5cbd3e8 0185aa4e c298e765 db87742b 70138a53 *)
Example sha256_1000_zeros : hex_of (sha256 (repeat x00 1000)) =
  [0x54;0x1b;0x3e;0x9d;0xaa;0x09;0xb2;0x0b;0xf8;0x5f;0xa2;0x73;0xe5;0xcb;0xd3;0xe8;
   0x01;0x85;0xaa;0x4e;0xc2;0x98;0xe7;0x65;0xdb;0x87;0x74;0x2b;0x70;0x13;0x8a;0x53].
Proof. vm_compute. reflexivity. Qed.

(* the streaming engine on an uneven chunking of the two-block message *)
Example sha_stream_example :
  sha_finish (sha_update (sha_update (sha_update sha_init (firstn 3 msg56)) (firstn 50 (skipn 3 msg56))) (skipn 53 msg56))
  = sha256 msg56.
Proof. vm_compute. reflexivity. Qed.
