(* Proofs/ImplRefLeaf.v — refinement Impl = Ref for the Parse-only objects
   (script, outpoint, txin, txout).  Both the Rust-faithful function and the
   streaming reference decoder are shown equal to the same list-level decoder
   ([l_script], [l_txin], [l_txout]) on every input shorter than 2^63 bytes;
   the Impl side never panics and builds its view at the same offset. *)
From BS Require Import Impl.Visit Ref.Grammar Proofs.SliceLemmas Proofs.Numbers Proofs.Len Proofs.CsDec.
From Coq Require Import ZifyN ZifyNat ZifyBool.
Open Scope N_scope.

Definition sl (p : N) (b : list byte) : slice := {| off := p; bytes := b |}.
Definition In63 (b : list byte) : Prop := lenN b < TWO63.

Lemma splitN_app_add {A} (a b : list A) n :
  splitN (a ++ b) (lenN a + n) = match splitN b n with
                                 | Some (d, r) => Some (a ++ d, r)
                                 | None => None
                                 end.
Proof.
  destruct (splitN b n) as [[d r]|] eqn:E.
  - apply splitN_Some in E. destruct E as [-> L]. rewrite app_assoc.
    apply splitN_app_exact. rewrite lenN_app. lia.
  - apply splitN_None in E. apply splitN_None. rewrite lenN_app. lia.
Qed.

Lemma In63_suffix a b : In63 (a ++ b) -> In63 b.
Proof. unfold In63. rewrite lenN_app. lia. Qed.

Inductive lres (A : Type) := LOk (a : A) (rest : list byte) | LErr (e : error).
Arguments LOk {A} a rest.
Arguments LErr {A} e.

(* ---- script: (bytes of the length prefix, script bytes) ---- *)
Definition l_script (b : list byte) : lres (list byte * list byte) :=
  match cs_dec b with
  | CsOk n cb rest =>
      match splitN rest n with
      | Some (d, r) => LOk (cb, d) r
      | None => LErr MoreBytesNeeded
      end
  | CsMore => LErr MoreBytesNeeded
  | CsNonMin => LErr NonMinimalVarInt
  end.

Lemma l_script_ok b cb d r : l_script b = LOk (cb, d) r ->
  b = cb ++ d ++ r /\ 1 <= lenN cb <= 9 /\ cs_dec b = CsOk (lenN d) cb (d ++ r).
Proof.
  unfold l_script. destruct (cs_dec b) as [n c rest| |] eqn:E; try discriminate.
  destruct (splitN rest n) as [[d' r']|] eqn:S; [|discriminate].
  intros H. injection H as <- <- <-. apply splitN_Some in S. destruct S as [-> <-].
  destruct (cs_dec_ok _ _ _ _ E) as [-> [Hc _]]. repeat split; try lia.
Qed.

Lemma r_script_pos_l brk p b h :
  r_script_pos brk (st0 p b h) =
  match l_script b with
  | LOk (cb, d) r => Done (p + lenN cb, d) (st0 (p + lenN cb + lenN d) r h)
  | LErr e => Fail e h
  end.
Proof.
  unfold r_script_pos, bind, l_script. rewrite r_compact_cs.
  destruct (cs_dec b) as [n cb rest| |]; try reflexivity.
  unfold get_pos, take, ret, st0. cbn [pos inp hi].
  destruct (splitN rest n) as [[d r]|] eqn:S; [|reflexivity].
  apply splitN_Some in S. destruct S as [_ <-]. reflexivity.
Qed.

Lemma parse_script_l p b : In63 b ->
  parse_script (sl p b) =
  match l_script b with
  | LOk (cb, d) r => Ok {| remaining := sl (p + lenN cb + lenN d) r;
                           parsed := {| sc_slice := sl p (cb ++ d); sc_from := lenN cb |} |}
  | LErr e => Err e
  end.
Proof.
  intros H63. unfold In63, TWO63 in H63.
  unfold parse_script, scan_len0, l_script. rewrite scan_len_spec, scan_result_cs. cbn [bytes sl].
  destruct (cs_dec b) as [n cb rest| |] eqn:E; try reflexivity.
  destruct (cs_dec_ok _ _ _ _ E) as [Hb [Hc Hn]]. unfold TWO64 in Hn.
  rewrite N.add_0_l.
  destruct (N.ltb_spec (lenN cb) TWO64) as [_|Hbad]; [|unfold TWO64 in Hbad; lia].
  cbn [obind]. rewrite split_at_checked_spec. cbn [bytes off sl].
  destruct (splitN rest n) as [[d r]|] eqn:S.
  - pose proof S as S'. apply splitN_Some in S'. destruct S' as [Hr Ln].
    assert (Hs : sat_add (lenN cb) n = lenN cb + n).
    { unfold sat_add, U64MAX. rewrite Hb, Hr, !lenN_app in H63. lia. }
    rewrite Hs, Hb, splitN_app_add, S. cbn [obind].
    rewrite Ln. replace (p + (lenN cb + n)) with (p + lenN cb + n) by lia. reflexivity.
  - apply splitN_None in S.
    assert (S2 : splitN b (sat_add (lenN cb) n) = None).
    { apply splitN_None. rewrite Hb, lenN_app in *. unfold sat_add, U64MAX. lia. }
    rewrite S2. reflexivity.
Qed.

(* Script::script() on a parsed script never panics and is the window of the script bytes *)
Lemma script_script_ok p cb sc :
  script_script {| sc_slice := sl p (cb ++ sc); sc_from := lenN cb |} = Ok (sl (p + lenN cb) sc).
Proof. unfold script_script. cbn [sc_slice sc_from]. apply s_from_app. Qed.

(* ---- outpoint ---- *)
Lemma parse_outpoint_spec p b :
  parse_outpoint (sl p b) = match splitN b 36 with
                            | Some (a, r) => Ok {| remaining := sl (p + 36) r; parsed := {| op_slice := sl p a |} |}
                            | None => Err MoreBytesNeeded
                            end.
Proof.
  unfold parse_outpoint. rewrite split_at_checked_spec. cbn [bytes off sl].
  destruct (splitN b 36) as [[a r]|]; reflexivity.
Qed.

Lemma splitN_36 (b : list byte) :
  splitN b 36 = match splitN b 32 with
                | Some (t, r1) => match splitN r1 4 with
                                  | Some (v, r2) => Some (t ++ v, r2)
                                  | None => None
                                  end
                | None => None
                end.
Proof.
  destruct (splitN b 32) as [[t r1]|] eqn:E.
  - apply splitN_Some in E. destruct E as [-> L]. change 36 with (32 + 4). rewrite <- L. apply splitN_app_add.
  - apply splitN_None in E. apply splitN_None. lia.
Qed.

Lemma r_outpoint_spec brk p b h :
  r_outpoint brk (st0 p b h) =
  match splitN b 32 with
  | Some (t, r1) => match splitN r1 4 with
                    | Some (v, r2) => Done (t, le_dec v) (st0 (p + 36) r2 h)
                    | None => Fail MoreBytesNeeded h
                    end
  | None => Fail MoreBytesNeeded h
  end.
Proof.
  unfold r_outpoint, r_u, bind, take, ret, st0. cbn [pos inp hi].
  destruct (splitN b 32) as [[t r1]|]; [|reflexivity]. cbn [pos inp hi].
  destruct (splitN r1 4) as [[v r2]|]; [|reflexivity]. cbn [pos inp hi].
  replace (p + 32 + 4) with (p + 36) by lia. reflexivity.
Qed.

Lemma outpoint_acc p (t v : list byte) : lenN t = 32 -> lenN v = 4 ->
  outpoint_txid {| op_slice := sl p (t ++ v) |} = Ok (sl p t) /\
  outpoint_vout {| op_slice := sl p (t ++ v) |} = Ok (le_dec v).
Proof.
  intros Lt Lv. split.
  - unfold outpoint_txid. cbn [op_slice]. rewrite <- Lt. apply s_to_app.
  - unfold outpoint_vout. cbn [op_slice]. unfold s_range.
    pose proof (s_get_range_app p t v []) as G. rewrite app_nil_r, Lt, Lv in G.
    change (32 + 4) with 36 in G. unfold sl. rewrite G. cbn [obind bytes].
    unfold to_array. rewrite Lv. reflexivity.
Qed.

(* ---- txin: (txid, vout bytes, script length prefix, script, sequence bytes) ---- *)
Definition l_txin (b : list byte) : lres (list byte * list byte * list byte * list byte * list byte) :=
  match splitN b 32 with
  | None => LErr MoreBytesNeeded
  | Some (t, r1) =>
      match splitN r1 4 with
      | None => LErr MoreBytesNeeded
      | Some (v, r2) =>
          match l_script r2 with
          | LErr e => LErr e
          | LOk (cb, sg) r3 =>
              match splitN r3 4 with
              | None => LErr MoreBytesNeeded
              | Some (q, r4) => LOk (t, v, cb, sg, q) r4
              end
          end
      end
  end.

Lemma l_txin_ok b t v cb sg q r : l_txin b = LOk (t, v, cb, sg, q) r ->
  b = (t ++ v ++ cb ++ sg ++ q) ++ r /\ lenN t = 32 /\ lenN v = 4 /\ 1 <= lenN cb <= 9 /\ lenN q = 4.
Proof.
  unfold l_txin.
  destruct (splitN b 32) as [[t' r1]|] eqn:S1; [|discriminate].
  destruct (splitN r1 4) as [[v' r2]|] eqn:S2; [|discriminate].
  destruct (l_script r2) as [[cb' sg'] r3|] eqn:S3; [|discriminate].
  destruct (splitN r3 4) as [[q' r4]|] eqn:S4; [|discriminate].
  intros H. injection H as <- <- <- <- <- <-.
  apply splitN_Some in S1, S2, S4. destruct S1 as [-> L1]. destruct S2 as [-> L2]. destruct S4 as [-> L4].
  destruct (l_script_ok _ _ _ _ S3) as [-> [Hc _]].
  repeat split; try assumption; try lia. rewrite <- !app_assoc. reflexivity.
Qed.

Definition mk_txin (p : N) (t v cb sg q : list byte) : txin :=
  {| ti_slice := sl p (t ++ v ++ cb ++ sg ++ q);
     ti_prevout := {| op_slice := sl p (t ++ v) |};
     ti_script_sig := {| sc_slice := sl (p + 36) (cb ++ sg); sc_from := lenN cb |};
     ti_sequence := le_dec q |}.
Definition a_of_txin (t v sg q : list byte) : a_txin :=
  {| ai_txid := t; ai_vout := le_dec v; ai_sig := sg; ai_seq := le_dec q |}.
Definition txin_len (cb sg : list byte) : N := 36 + lenN cb + lenN sg + 4.
Definition ev_of_txin (i p : N) (v cb sg q : list byte) : event :=
  ETxIn i (p, txin_len cb sg) (p, 36) (p, 32) (le_dec v) (p + 36 + lenN cb, lenN sg) (le_dec q).

Lemma r_txin_ev_l i brk p b h :
  r_txin_ev i brk (st0 p b h) =
  match l_txin b with
  | LOk (t, v, cb, sg, q) r => Done (a_of_txin t v sg q, ev_of_txin i p v cb sg q) (st0 (p + txin_len cb sg) r h)
  | LErr e => Fail e h
  end.
Proof.
  unfold r_txin_ev, l_txin. unfold bind at 1. unfold get_pos at 1. cbn [pos st0].
  unfold bind at 1. rewrite r_outpoint_spec.
  destruct (splitN b 32) as [[t r1]|]; [|reflexivity].
  destruct (splitN r1 4) as [[v r2]|]; [|reflexivity].
  unfold bind at 1. rewrite r_script_pos_l.
  destruct (l_script r2) as [[cb sg] r3|]; [|reflexivity].
  unfold r_u, bind, take, get_pos, ret, st0. cbn [pos inp hi].
  destruct (splitN r3 4) as [[q r4]|]; [|reflexivity]. cbn [pos inp hi].
  unfold a_of_txin, ev_of_txin, txin_len.
  replace (p + 36 + lenN cb + lenN sg + 4 - p) with (36 + lenN cb + lenN sg + 4) by lia.
  replace (p + 36 + lenN cb + lenN sg + 4) with (p + (36 + lenN cb + lenN sg + 4)) by lia. reflexivity.
Qed.

Lemma parse_txin_l p b : In63 b ->
  parse_txin (sl p b) =
  match l_txin b with
  | LOk (t, v, cb, sg, q) r => Ok {| remaining := sl (p + txin_len cb sg) r; parsed := mk_txin p t v cb sg q |}
  | LErr e => Err e
  end.
Proof.
  intros H63. unfold parse_txin, l_txin. rewrite parse_outpoint_spec, splitN_36.
  destruct (splitN b 32) as [[t r1]|] eqn:S1; [|reflexivity].
  destruct (splitN r1 4) as [[v r2]|] eqn:S2; [|reflexivity].
  apply splitN_Some in S1, S2. destruct S1 as [Hb Lt]. destruct S2 as [Hr1 Lv].
  cbn [obind remaining parsed].
  assert (H63' : In63 r2). { subst b r1. apply In63_suffix in H63. apply In63_suffix in H63. exact H63. }
  rewrite (parse_script_l (p + 36) r2 H63').
  destruct (l_script r2) as [[cb sg] r3|] eqn:S3; [|reflexivity].
  destruct (l_script_ok _ _ _ _ S3) as [Hr2 [Hc _]].
  cbn [obind remaining parsed]. unfold read_u32. rewrite read_le_spec. cbn [bytes sl].
  destruct (splitN r3 4) as [[q r4]|] eqn:S4; [|reflexivity].
  apply splitN_Some in S4. destruct S4 as [Hr3 Lq].
  cbn [obind]. unfold consumed_of. cbn [parsed sc_slice]. unfold s_len, sl. cbn [bytes].
  unfold uadd. rewrite lenN_app.
  assert (Hlen : lenN b = 32 + 4 + lenN cb + lenN sg + 4 + lenN r4).
  { subst b r1 r2 r3. rewrite !lenN_app. lia. }
  unfold In63, TWO63 in H63.
  destruct (N.ltb_spec (lenN cb + lenN sg + 40) TWO64) as [_|Hbad]; [|unfold TWO64 in Hbad; lia].
  cbn [obind].
  set (c := t ++ v ++ cb ++ sg ++ q).
  assert (Hbc : b = c ++ r4). { unfold c. subst b r1 r2 r3. rewrite <- !app_assoc. reflexivity. }
  assert (Lc : lenN c = lenN cb + lenN sg + 40). { unfold c. rewrite !lenN_app. lia. }
  rewrite <- Lc. fold (sl p b). rewrite Hbc. unfold sl at 1 2. rewrite s_to_app, s_from_app. cbn [obind].
  unfold mk_txin, txin_len. fold c. unfold sl. repeat f_equal; lia.
Qed.

Lemma txin_event_ok i p t v cb sg q : lenN t = 32 -> lenN v = 4 -> lenN q = 4 ->
  txin_event i (mk_txin p t v cb sg q) = Ok (ev_of_txin i p v cb sg q).
Proof.
  intros Lt Lv Lq. unfold txin_event, mk_txin. cbn [ti_prevout ti_slice ti_script_sig ti_sequence op_slice].
  destruct (outpoint_acc p t v Lt Lv) as [A1 A2]. rewrite A1, A2. cbn [obind].
  unfold txin_script_sig. cbn [ti_script_sig]. rewrite script_script_ok. cbn [obind].
  unfold ev_of_txin, txin_len, win, s_len, sl. cbn [off bytes]. rewrite !lenN_app, Lt, Lv, Lq.
  replace (32 + (4 + (lenN cb + (lenN sg + 4)))) with (36 + lenN cb + lenN sg + 4) by lia.
  change (32 + 4) with 36. reflexivity.
Qed.

(* ---- txout: (value bytes, script length prefix, script) ---- *)
Definition l_txout (b : list byte) : lres (list byte * list byte * list byte) :=
  match splitN b 8 with
  | None => LErr MoreBytesNeeded
  | Some (v, r1) =>
      match l_script r1 with
      | LErr e => LErr e
      | LOk (cb, spk) r2 => LOk (v, cb, spk) r2
      end
  end.

Lemma l_txout_ok b v cb spk r : l_txout b = LOk (v, cb, spk) r ->
  b = (v ++ cb ++ spk) ++ r /\ lenN v = 8 /\ 1 <= lenN cb <= 9.
Proof.
  unfold l_txout.
  destruct (splitN b 8) as [[v' r1]|] eqn:S1; [|discriminate].
  destruct (l_script r1) as [[cb' spk'] r2|] eqn:S2; [|discriminate].
  intros H. injection H as <- <- <- <-.
  apply splitN_Some in S1. destruct S1 as [-> L1].
  destruct (l_script_ok _ _ _ _ S2) as [-> [Hc _]].
  repeat split; try assumption; try lia. rewrite <- !app_assoc. reflexivity.
Qed.

Definition mk_txout (p : N) (v cb spk : list byte) : txout :=
  {| to_slice := sl p (v ++ cb ++ spk); to_value := le_dec v;
     to_spk := {| sc_slice := sl (p + 8) (cb ++ spk); sc_from := lenN cb |} |}.
Definition a_of_txout (v spk : list byte) : a_txout := {| ao_value := le_dec v; ao_spk := spk |}.
Definition txout_len (cb spk : list byte) : N := 8 + lenN cb + lenN spk.
Definition ev_of_txout (i p : N) (v cb spk : list byte) : event :=
  ETxOut i (p, txout_len cb spk) (le_dec v) (p + 8 + lenN cb, lenN spk).

Lemma r_txout_ev_l i brk p b h :
  r_txout_ev i brk (st0 p b h) =
  match l_txout b with
  | LOk (v, cb, spk) r => Done (a_of_txout v spk, ev_of_txout i p v cb spk) (st0 (p + txout_len cb spk) r h)
  | LErr e => Fail e h
  end.
Proof.
  unfold r_txout_ev, l_txout. unfold bind at 1. unfold get_pos at 1. cbn [pos st0].
  unfold bind at 1. unfold r_u, bind at 1. unfold take at 1. cbn [inp pos hi st0].
  destruct (splitN b 8) as [[v r1]|]; [|reflexivity].
  unfold ret at 1. unfold bind at 1.
  change {| pos := p + 8; inp := r1; hi := h |} with (st0 (p + 8) r1 h). rewrite r_script_pos_l.
  destruct (l_script r1) as [[cb spk] r2|]; [|reflexivity].
  unfold bind, get_pos, ret, st0. cbn [pos inp hi].
  unfold a_of_txout, ev_of_txout, txout_len.
  replace (p + 8 + lenN cb + lenN spk - p) with (8 + lenN cb + lenN spk) by lia.
  replace (p + 8 + lenN cb + lenN spk) with (p + (8 + lenN cb + lenN spk)) by lia. reflexivity.
Qed.

Lemma parse_txout_l p b : In63 b ->
  parse_txout (sl p b) =
  match l_txout b with
  | LOk (v, cb, spk) r => Ok {| remaining := sl (p + txout_len cb spk) r; parsed := mk_txout p v cb spk |}
  | LErr e => Err e
  end.
Proof.
  intros H63. unfold parse_txout, l_txout, read_u64. rewrite read_le_spec. cbn [bytes sl].
  destruct (splitN b 8) as [[v r1]|] eqn:S1; [|reflexivity].
  apply splitN_Some in S1. destruct S1 as [Hb Lv].
  cbn [obind]. rewrite Hb. rewrite <- Lv. unfold sl at 1. rewrite s_from_app. cbn [obind]. rewrite Lv.
  assert (H63' : In63 r1). { subst b. apply In63_suffix in H63. exact H63. }
  fold (sl (p + 8) r1). rewrite (parse_script_l (p + 8) r1 H63').
  destruct (l_script r1) as [[cb spk] r2|] eqn:S2; [|reflexivity].
  destruct (l_script_ok _ _ _ _ S2) as [Hr1 [Hc _]].
  cbn [obind remaining parsed]. unfold consumed_of. cbn [parsed sc_slice]. unfold s_len, sl. cbn [bytes].
  unfold uadd. rewrite lenN_app.
  unfold In63, TWO63 in H63. rewrite Hb, Hr1, !lenN_app in H63.
  destruct (N.ltb_spec (8 + (lenN cb + lenN spk)) TWO64) as [_|Hbad]; [|unfold TWO64 in Hbad; lia].
  cbn [obind].
  set (c := v ++ cb ++ spk).
  assert (Hbc : v ++ r1 = c ++ r2). { unfold c. subst r1. rewrite <- !app_assoc. reflexivity. }
  assert (Lc : lenN c = 8 + (lenN cb + lenN spk)). { unfold c. rewrite !lenN_app. lia. }
  rewrite <- Lc, Hbc. fold (sl p (c ++ r2)). unfold sl at 1. rewrite s_to_app. cbn [obind].
  unfold mk_txout, txout_len. fold c. unfold sl.
  replace (p + 8 + lenN cb + lenN spk) with (p + (8 + lenN cb + lenN spk)) by lia. reflexivity.
Qed.

Lemma txout_event_ok i p v cb spk : lenN v = 8 ->
  txout_event i (mk_txout p v cb spk) = Ok (ev_of_txout i p v cb spk).
Proof.
  intros Lv. unfold txout_event, txout_script_pubkey, mk_txout. cbn [to_spk to_slice to_value].
  rewrite script_script_ok. cbn [obind].
  unfold ev_of_txout, txout_len, win, s_len, sl. cbn [off bytes]. rewrite !lenN_app, Lv.
  replace (8 + (lenN cb + lenN spk)) with (8 + lenN cb + lenN spk) by lia. reflexivity.
Qed.
