(* Base/Slice.v — a Rust [&[u8]] that is a sub-slice of the caller's input:
   absolute offset inside the top-level input (pointer identity) + contents.
   Every operation mirrors the panics of the corresponding Rust API. *)
From BS Require Export Base.Mach.
Open Scope N_scope.

Record slice := { off : N; bytes : list byte }.

Definition s_len (s : slice) : N := lenN (bytes s).
Definition s_first (s : slice) : option byte :=
  match bytes s with [] => None | b :: _ => Some b end.

(* [s.len() < n], computed without measuring the whole slice (walks at most n cells);
   [s_len_lt_spec] in Proofs/SliceLemmas.v: s_len_lt s n = (s_len s <? n) *)
Definition s_len_lt (s : slice) (n : N) : bool :=
  match splitN (bytes s) n with None => true | Some _ => false end.

(* [split_at(n)]: panics when n > len *)
Definition s_split (s : slice) (n : N) : out (slice * slice) :=
  match splitN (bytes s) n with
  | Some (a, b) => Ok ({| off := off s; bytes := a |}, {| off := off s + n; bytes := b |})
  | None => Panic IndexOOB
  end.
(* the crate's [split_at_checked] *)
Definition s_split_checked (s : slice) (n : N) : out (slice * slice) :=
  match splitN (bytes s) n with
  | Some (a, b) => Ok ({| off := off s; bytes := a |}, {| off := off s + n; bytes := b |})
  | None => Err MoreBytesNeeded
  end.
(* [&s[a..]] *)
Definition s_from (s : slice) (a : N) : out slice :=
  match splitN (bytes s) a with
  | Some (_, b) => Ok {| off := off s + a; bytes := b |}
  | None => Panic IndexOOB
  end.
(* [&s[..c]] *)
Definition s_to (s : slice) (c : N) : out slice :=
  match splitN (bytes s) c with
  | Some (a, _) => Ok {| off := off s; bytes := a |}
  | None => Panic IndexOOB
  end.
(* [s.get(a..c)] : None when a > c or c > len *)
Definition s_get_range (s : slice) (a c : N) : option slice :=
  if c <? a then None else
  match splitN (bytes s) a with
  | Some (_, b) =>
      match splitN b (c - a) with
      | Some (m, _) => Some {| off := off s + a; bytes := m |}
      | None => None
      end
  | None => None
  end.
(* [&s[a..c]] *)
Definition s_range (s : slice) (a c : N) : out slice :=
  match s_get_range s a c with Some r => Ok r | None => Panic IndexOOB end.
(* [s.get(..c)] *)
Definition s_get_to (s : slice) (c : N) : option slice := s_get_range s 0 c.
(* [s[i]] *)
Definition s_index (s : slice) (i : N) : out byte :=
  match splitN (bytes s) i with
  | Some (_, b :: _) => Ok b
  | _ => Panic IndexOOB
  end.

Definition window := (N * N)%type.
Definition win (s : slice) : window := (off s, s_len s).

Definition top (inp : list byte) : slice := {| off := 0; bytes := inp |}.
