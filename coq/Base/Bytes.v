(* Base/Bytes.v — bytes, lengths in N, little-endian codec.
   Bytes are Coq's [Strings.Byte.byte] (256 constructors): every [list byte]
   is a legal input, no range side conditions. *)
From Coq Require Export List NArith ZArith Lia Bool Arith.
From Coq Require Export Strings.Byte.
From Coq Require Import ZifyN ZifyNat ZifyBool.
Export ListNotations.
Open Scope N_scope.

Global Arguments N.add : simpl never.
Global Arguments N.sub : simpl never.
Global Arguments N.mul : simpl never.
Global Arguments N.pow : simpl never.
Global Arguments N.eqb : simpl never.
Global Arguments N.ltb : simpl never.
Global Arguments N.leb : simpl never.
Global Arguments N.div : simpl never.
Global Arguments N.modulo : simpl never.
Global Arguments N.min : simpl never.
Global Arguments N.of_nat : simpl never.
Global Arguments N.to_nat : simpl never.

Ltac Zify.zify_post_hook ::= Z.div_mod_to_equations.


Definition b2n (b : byte) : N := Byte.to_N b.

Definition n2b (n : N) : byte :=
  match Byte.of_N (n mod 256) with Some b => b | None => x00 end.

Lemma b2n_lt b : b2n b < 256.
Proof. unfold b2n. pose proof (Byte.to_N_bounded b). lia. Qed.

Lemma b2n_n2b n : n < 256 -> b2n (n2b n) = n.
Proof.
  intros H. unfold n2b, b2n.
  rewrite N.mod_small by exact H.
  destruct (Byte.of_N n) as [b|] eqn:E.
  - apply Byte.to_of_N in E. exact E.
  - apply Byte.of_N_None_iff in E. lia.
Qed.

Lemma n2b_b2n b : n2b (b2n b) = b.
Proof.
  unfold n2b, b2n.
  rewrite N.mod_small by (pose proof (Byte.to_N_bounded b); lia).
  rewrite Byte.of_to_N. reflexivity.
Qed.

Lemma b2n_inj a b : b2n a = b2n b -> a = b.
Proof. intros H. rewrite <- (n2b_b2n a), <- (n2b_b2n b), H. reflexivity. Qed.

(* Length as an N *)
Definition lenN {A} (l : list A) : N := N.of_nat (length l).

Lemma lenN_nil {A} : lenN (@nil A) = 0.
Proof. reflexivity. Qed.
Lemma lenN_cons {A} (x : A) l : lenN (x :: l) = 1 + lenN l.
Proof. unfold lenN. cbn [length]. lia. Qed.
Lemma lenN_app {A} (a b : list A) : lenN (a ++ b) = lenN a + lenN b.
Proof. unfold lenN. rewrite app_length. lia. Qed.
Lemma lenN_0 {A} (l : list A) : lenN l = 0 -> l = [].
Proof. destruct l; [reflexivity|]. rewrite lenN_cons. lia. Qed.

(* Little-endian *)
Fixpoint le_dec (l : list byte) : N :=
  match l with [] => 0 | b :: t => b2n b + 256 * le_dec t end.

Fixpoint le_enc (w : nat) (n : N) : list byte :=
  match w with O => [] | S w' => n2b (n mod 256) :: le_enc w' (n / 256) end.

Lemma le_enc_length w n : length (le_enc w n) = w.
Proof. revert n; induction w as [|w IH]; intros n; cbn [le_enc length]; [reflexivity|]. rewrite IH. reflexivity. Qed.

Lemma lenN_le_enc w n : lenN (le_enc w n) = N.of_nat w.
Proof. unfold lenN. rewrite le_enc_length. reflexivity. Qed.

Lemma le_dec_lt l : le_dec l < 256 ^ lenN l.
Proof.
  induction l as [|b t IH]; cbn [le_dec].
  - change (lenN (@nil byte)) with 0. change (256 ^ 0) with 1. lia.
  - rewrite lenN_cons. rewrite N.pow_add_r. change (256 ^ 1) with 256.
    pose proof (b2n_lt b). nia.
Qed.

Lemma le_dec_enc w n : n < 256 ^ N.of_nat w -> le_dec (le_enc w n) = n.
Proof.
  revert n; induction w as [|w IH]; intros n H; cbn [le_enc le_dec].
  - change (256 ^ N.of_nat 0) with 1 in H. lia.
  - rewrite b2n_n2b by (apply N.mod_lt; lia).
    rewrite IH.
    + pose proof (N.div_mod n 256). lia.
    + replace (N.of_nat (S w)) with (1 + N.of_nat w) in H by lia.
      rewrite N.pow_add_r in H. change (256 ^ 1) with 256 in H.
      apply N.div_lt_upper_bound; lia.
Qed.

Lemma le_enc_dec l : le_enc (length l) (le_dec l) = l.
Proof.
  induction l as [|b t IH]; cbn [length le_enc le_dec]; [reflexivity|].
  pose proof (b2n_lt b) as Hb.
  assert (E1 : (b2n b + 256 * le_dec t) mod 256 = b2n b).
  { lia. }
  assert (E2 : (b2n b + 256 * le_dec t) / 256 = le_dec t).
  { lia. }
  rewrite E1, E2, n2b_b2n, IH. reflexivity.
Qed.

Lemma le_dec_inj a b : length a = length b -> le_dec a = le_dec b -> a = b.
Proof.
  intros Hl Hd. rewrite <- (le_enc_dec a), <- (le_enc_dec b), Hl, Hd. reflexivity.
Qed.

Lemma le_enc_inj w a b : a < 256 ^ N.of_nat w -> b < 256 ^ N.of_nat w -> le_enc w a = le_enc w b -> a = b.
Proof. intros Ha Hb E. rewrite <- (le_dec_enc w a Ha), <- (le_dec_enc w b Hb), E. reflexivity. Qed.

(* two's complement 32-bit *)
Definition i32_of_n (n : N) : Z :=
  if n <? 2147483648 then Z.of_N n else (Z.of_N n - 4294967296)%Z.
Definition n_of_i32 (z : Z) : N :=
  if (z <? 0)%Z then Z.to_N (z + 4294967296)%Z else Z.to_N z.

Lemma i32_of_n_range n : n < 4294967296 -> (-2147483648 <= i32_of_n n < 2147483648)%Z.
Proof. intros H. unfold i32_of_n. destruct (N.ltb_spec n 2147483648); lia. Qed.
Lemma n_of_i32_of_n n : n < 4294967296 -> n_of_i32 (i32_of_n n) = n.
Proof.
  intros H. unfold i32_of_n, n_of_i32. destruct (N.ltb_spec n 2147483648).
  - destruct (Z.ltb_spec (Z.of_N n) 0); lia.
  - destruct (Z.ltb_spec (Z.of_N n - 4294967296) 0); lia.
Qed.
Lemma i32_of_n_of_i32 z : (-2147483648 <= z < 2147483648)%Z -> i32_of_n (n_of_i32 z) = z.
Proof.
  intros H. unfold i32_of_n, n_of_i32. destruct (Z.ltb_spec z 0).
  - destruct (N.ltb_spec (Z.to_N (z + 4294967296)) 2147483648); lia.
  - destruct (N.ltb_spec (Z.to_N z) 2147483648); lia.
Qed.
Lemma n_of_i32_range z : (-2147483648 <= z < 2147483648)%Z -> n_of_i32 z < 4294967296.
Proof. intros H. unfold n_of_i32. destruct (Z.ltb_spec z 0); lia. Qed.

(* list splitting with an N count that is never converted to nat *)
Fixpoint splitN {A} (l : list A) (n : N) : option (list A * list A) :=
  if n =? 0 then Some ([], l) else
  match l with
  | [] => None
  | x :: t => match splitN t (N.pred n) with
              | Some (a, b) => Some (x :: a, b)
              | None => None
              end
  end.

Lemma splitN_spec {A} (l : list A) n :
  splitN l n = if n <=? lenN l
               then Some (firstn (N.to_nat n) l, skipn (N.to_nat n) l) else None.
Proof.
  revert n; induction l as [|x t IH]; intros n; cbn [splitN].
  - destruct (N.eqb_spec n 0) as [->|Hn].
    + reflexivity.
    + change (lenN (@nil A)) with 0. destruct (N.leb_spec n 0); [lia|reflexivity].
  - destruct (N.eqb_spec n 0) as [->|Hn].
    + reflexivity.
    + rewrite IH, lenN_cons.
      replace (N.to_nat n) with (S (N.to_nat (N.pred n))) by lia.
      destruct (N.leb_spec (N.pred n) (lenN t)); destruct (N.leb_spec n (1 + lenN t)); try lia; reflexivity.
Qed.

Lemma splitN_app {A} (a b : list A) : splitN (a ++ b) (lenN a) = Some (a, b).
Proof.
  rewrite splitN_spec, lenN_app.
  destruct (N.leb_spec (lenN a) (lenN a + lenN b)); [|lia].
  unfold lenN. rewrite Nat2N.id.
  rewrite firstn_app, Nat.sub_diag, firstn_all, skipn_app, Nat.sub_diag, skipn_all. cbn.
  rewrite app_nil_r. reflexivity.
Qed.

Lemma splitN_Some {A} (l a b : list A) n :
  splitN l n = Some (a, b) -> l = a ++ b /\ lenN a = n.
Proof.
  rewrite splitN_spec. destruct (N.leb_spec n (lenN l)) as [H|H]; [|discriminate].
  intros E; injection E as <- <-. split.
  - symmetry; apply firstn_skipn.
  - unfold lenN in *. rewrite firstn_length. lia.
Qed.

Lemma splitN_None {A} (l : list A) n : splitN l n = None <-> lenN l < n.
Proof.
  rewrite splitN_spec. destruct (N.leb_spec n (lenN l)); split; intros; try discriminate; try lia; reflexivity.
Qed.
