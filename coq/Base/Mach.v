(* Base/Mach.v — machine-level outcomes: 64-bit usize/u64 arithmetic with the
   panics of a build with overflow checks, error values of the crate. *)
From BS Require Export Base.Bytes.
Open Scope N_scope.

Inductive error :=
| MoreBytesNeeded
| UnknownSegwitFlag (b : N)
| SegwitFlagWithoutWitnesses
| NonMinimalVarInt
| VisitBreak
| Other (c : N).

Inductive panic := AddOverflow | SubOverflow | IndexOOB | ExpectFailed.

Inductive out (A : Type) :=
| Ok (a : A)
| Err (e : error)
| Panic (why : panic)
| OutOfFuel.
Arguments Ok {A} a.
Arguments Err {A} e.
Arguments Panic {A} why.
Arguments OutOfFuel {A}.

Definition obind {A B} (x : out A) (f : A -> out B) : out B :=
  match x with
  | Ok a => f a
  | Err e => Err e
  | Panic w => Panic w
  | OutOfFuel => OutOfFuel
  end.

Declare Scope out_scope.
Delimit Scope out_scope with out.
Notation "x <- e ;; f" := (obind e (fun x => f))
  (at level 61, e at next level, right associativity) : out_scope.
Notation "' pat <- e ;; f" := (obind e (fun x => match x with pat => f end))
  (at level 61, pat pattern, e at next level, right associativity) : out_scope.

Definition U64MAX : N := 18446744073709551615.
Definition TWO64 : N := 18446744073709551616.
Definition TWO63 : N := 9223372036854775808.
Definition TWO32 : N := 4294967296.

Definition uadd (a b : N) : out N := if a + b <? TWO64 then Ok (a + b) else Panic AddOverflow.
Definition umul (a b : N) : out N := if a * b <? TWO64 then Ok (a * b) else Panic AddOverflow.
Definition usub (a b : N) : out N := if b <=? a then Ok (a - b) else Panic SubOverflow.
Definition sat_add (a b : N) : N := N.min (a + b) U64MAX.
Definition sat_sub (a b : N) : N := a - b.  (* N subtraction truncates at 0 *)

Definition is_ok {A} (x : out A) : bool := match x with Ok _ => true | _ => false end.
Definition is_panic {A} (x : out A) : bool := match x with Panic _ | OutOfFuel => true | _ => false end.

Definition error_eqb (a b : error) : bool :=
  match a, b with
  | MoreBytesNeeded, MoreBytesNeeded => true
  | UnknownSegwitFlag x, UnknownSegwitFlag y => x =? y
  | SegwitFlagWithoutWitnesses, SegwitFlagWithoutWitnesses => true
  | NonMinimalVarInt, NonMinimalVarInt => true
  | VisitBreak, VisitBreak => true
  | Other x, Other y => x =? y
  | _, _ => false
  end.

Lemma error_eqb_spec a b : reflect (a = b) (error_eqb a b).
Proof.
  destruct a, b; cbn; try (constructor; congruence).
  - destruct (N.eqb_spec b0 b); constructor; congruence.
  - destruct (N.eqb_spec c c0); constructor; congruence.
Qed.
