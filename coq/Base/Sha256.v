(* Base/Sha256.v — SHA-256 (FIPS 180-4) as an executable Gallina function, one-shot and as a streaming
   engine (init / update / finish), over [list byte].  Words are [N] below 2^32.
   No proofs here (the file stays executable when a proof breaks); the streaming law and the test
   vectors are in Proofs/Sha256Stream.v. *)
From BS Require Import Base.Bytes.
Open Scope N_scope.

Definition MASK32 : N := 4294967295.
Definition add32 (a b : N) : N := N.land (a + b) MASK32.      (* (a + b) mod 2^32 *)
Definition rotr (n x : N) : N := N.lor (N.shiftr x n) (N.land (N.shiftl x (32 - n)) MASK32).
Definition shr (n x : N) : N := N.shiftr x n.
Definition not32 (x : N) : N := N.lxor x MASK32.

Definition Ch (x y z : N) : N := N.lxor (N.land x y) (N.land (not32 x) z).
Definition Maj (x y z : N) : N := N.lxor (N.lxor (N.land x y) (N.land x z)) (N.land y z).
Definition Sig0 (x : N) : N := N.lxor (N.lxor (rotr 2 x) (rotr 13 x)) (rotr 22 x).
Definition Sig1 (x : N) : N := N.lxor (N.lxor (rotr 6 x) (rotr 11 x)) (rotr 25 x).
Definition sig0 (x : N) : N := N.lxor (N.lxor (rotr 7 x) (rotr 18 x)) (shr 3 x).
Definition sig1 (x : N) : N := N.lxor (N.lxor (rotr 17 x) (rotr 19 x)) (shr 10 x).

Definition K256 : list N :=
  [0x428a2f98; 0x71374491; 0xb5c0fbcf; 0xe9b5dba5; 0x3956c25b; 0x59f111f1; 0x923f82a4; 0xab1c5ed5;
   0xd807aa98; 0x12835b01; 0x243185be; 0x550c7dc3; 0x72be5d74; 0x80deb1fe; 0x9bdc06a7; 0xc19bf174;
   0xe49b69c1; 0xefbe4786; 0x0fc19dc6; 0x240ca1cc; 0x2de92c6f; 0x4a7484aa; 0x5cb0a9dc; 0x76f988da;
   0x983e5152; 0xa831c66d; 0xb00327c8; 0xbf597fc7; 0xc6e00bf3; 0xd5a79147; 0x06ca6351; 0x14292967;
   0x27b70a85; 0x2e1b2138; 0x4d2c6dfc; 0x53380d13; 0x650a7354; 0x766a0abb; 0x81c2c92e; 0x92722c85;
   0xa2bfe8a1; 0xa81a664b; 0xc24b8b70; 0xc76c51a3; 0xd192e819; 0xd6990624; 0xf40e3585; 0x106aa070;
   0x19a4c116; 0x1e376c08; 0x2748774c; 0x34b0bcb5; 0x391c0cb3; 0x4ed8aa4a; 0x5b9cca4f; 0x682e6ff3;
   0x748f82ee; 0x78a5636f; 0x84c87814; 0x8cc70208; 0x90befffa; 0xa4506ceb; 0xbef9a3f7; 0xc67178f2].

Definition H256 : list N :=
  [0x6a09e667; 0xbb67ae85; 0x3c6ef372; 0xa54ff53a; 0x510e527f; 0x9b05688c; 0x1f83d9ab; 0x5be0cd19].

(* big-endian words *)
Fixpoint be_dec (l : list byte) : N :=
  match l with [] => 0 | b :: t => b2n b * 256 ^ lenN t + be_dec t end.
Definition be_enc (w : nat) (n : N) : list byte := rev (le_enc w n).

Fixpoint words (n : nat) (l : list byte) : list N :=       (* the first n big-endian 32-bit words of l *)
  match n with
  | O => []
  | S n' => be_dec (firstn 4 l) :: words n' (skipn 4 l)
  end.

(* message schedule: [ws] holds W[t-1], W[t-2], ... (most recent first) *)
Fixpoint schedule (n : nat) (ws : list N) : list N :=
  match n with
  | O => ws
  | S n' =>
      let w := add32 (add32 (sig1 (nth 1 ws 0)) (nth 6 ws 0)) (add32 (sig0 (nth 14 ws 0)) (nth 15 ws 0)) in
      schedule n' (w :: ws)
  end.

Definition state := list N.     (* eight words a..h *)

Definition round (s : state) (kw : N * N) : state :=
  match s with
  | [a; b; c; d; e; f; g; h] =>
      let t1 := add32 (add32 (add32 h (Sig1 e)) (add32 (Ch e f g) (fst kw))) (snd kw) in
      let t2 := add32 (Sig0 a) (Maj a b c) in
      [add32 t1 t2; a; b; c; add32 d t1; e; f; g]
  | _ => s
  end.

Fixpoint add_states (a b : state) : state :=
  match a, b with
  | x :: a', y :: b' => add32 x y :: add_states a' b'
  | _, _ => []
  end.

(* one 64-byte block (only the first 64 bytes of [blk] are read) *)
Definition process_block (s : state) (blk : list byte) : state :=
  let w := rev (schedule 48 (rev (words 16 blk))) in
  add_states s (fold_left round (combine K256 w) s).

(* n blocks of 64 bytes from the front of l; returns the state and what is left *)
Fixpoint absorb_n (n : nat) (s : state) (l : list byte) : state * list byte :=
  match n with
  | O => (s, l)
  | S n' => absorb_n n' (process_block s (firstn 64 l)) (skipn 64 l)
  end.

Definition absorb (s : state) (l : list byte) : state * list byte := absorb_n (length l / 64) s l.

(* padding for a message of [n] bytes: 0x80, zeros up to 56 mod 64, the bit length as 64 bits big-endian *)
Definition padding (n : N) : list byte :=
  x80 :: repeat x00 (N.to_nat ((119 - n mod 64) mod 64)) ++ be_enc 8 ((8 * n) mod 2 ^ 64).

Definition digest (s : state) : list byte := flat_map (be_enc 4) s.

Definition sha256 (m : list byte) : list byte := digest (fst (absorb H256 (m ++ padding (lenN m)))).
Definition sha256d (m : list byte) : list byte := sha256 (sha256 m).

(* the streaming engine: chaining state, pending bytes (fewer than 64), total number of bytes fed *)
Record engine := { e_state : state; e_buf : list byte; e_total : N }.
Definition sha_init : engine := {| e_state := H256; e_buf := []; e_total := 0 |}.
Definition sha_update (e : engine) (d : list byte) : engine :=
  let '(s, r) := absorb (e_state e) (e_buf e ++ d) in
  {| e_state := s; e_buf := r; e_total := e_total e + lenN d |}.
Definition sha_finish (e : engine) : list byte :=
  digest (fst (absorb (e_state e) (e_buf e ++ padding (e_total e)))).
(* bitcoin_hashes' sha256d::Hash::from_engine and the crate's sha2 path: hash the first digest again *)
Definition sha_finish_d (e : engine) : list byte := sha256 (sha_finish e).
