(* Extract/Extract.v — extraction of the executable model to OCaml.
   ExtrOcamlBasic only: bool, option, unit, list, prod, sumbool are mapped to
   OCaml's; N, positive, Z, nat, byte, string, ascii stay extracted inductives. *)
From Coq Require Import Extraction ExtrOcamlBasic.
From BS Require Import Impl.Render.
Extraction "model.ml" run_case run_ref_case run_cache run_find lex_compare Byte.of_N Byte.to_N N.of_nat N.to_nat.
