#!/bin/bash
# handle.sh <round> <ID>...: confirm in worktree, import into /verif/seeded, run the own-property check
round=$1; shift
for id in "$@"; do
  (cd /tmp/mut && ./confirm.sh $id > /tmp/mut/confirm/$id.out 2>&1)
  line=$(cat /tmp/mut/confirm/$id.out | tail -1)
  echo "$line"
  if echo "$line" | grep -q "demo_with=101 baseline_with=0 allfeat_with=0 demo_without=0 compile_errs=0"; then
    /tmp/import_rc.sh $id $round
    /tmp/run_rb.sh $id 2>&1 | grep -v "^NOTE" | cut -c1-420
  else
    echo "$id NOT CONFIRMED"
  fi
done
