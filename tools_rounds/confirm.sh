#!/bin/bash
# usage: confirm.sh <ID>   (worktree /tmp/mut/<ID>, patch applied in working tree)
id=$1; d=/tmp/mut/$id; cd $d || exit 9
export CARGO_NET_OFFLINE=true CARGO_TARGET_DIR=/tmp/mut/target_$id
F=slice_cache,bitcoin,bitcoin_hashes,sha2,redb
log=/tmp/mut/confirm/$id.log; : > $log
# make a clean patch from the working tree (src only)
git diff -- src > /tmp/mut/confirm/$id.patch
demo=$(ls tests/*.rs | head -1); name=$(basename $demo .rs)
echo "## with change: demo" >> $log
cargo test --offline --features $F --test $name >> $log 2>&1; a=$?
echo "## with change: baseline lib (default features)" >> $log
mkdir -p /tmp/mut/confirm/hold_$id; mv tests/*.rs /tmp/mut/confirm/hold_$id/
cargo test --offline --lib >> $log 2>&1; b=$?
cargo test --offline --features $F --lib >> $log 2>&1; b2=$?
mv /tmp/mut/confirm/hold_$id/*.rs tests/
echo "## without change: demo" >> $log
git apply -R /tmp/mut/confirm/$id.patch
cargo test --offline --features $F --test $name >> $log 2>&1; c=$?
git apply /tmp/mut/confirm/$id.patch
compile_err=$(grep -c "^error\[E\|error: could not compile" $log)
echo "$id demo_with=$a baseline_with=$b allfeat_with=$b2 demo_without=$c compile_errs=$compile_err" | tee -a $log
rm -rf $CARGO_TARGET_DIR
