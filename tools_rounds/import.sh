#!/bin/bash
# import_rc.sh <ID> <round>: copy a confirmed change from /tmp/mut/<ID> into /verif/seeded/<ID>, remove the worktree
id=$1; round=$2; d=/tmp/mut/$id; cd /verif
mkdir -p seeded/$id; cp /tmp/mut/confirm/$id.patch seeded/$id/patch.diff; cp $d/tests/*.rs seeded/$id/; cp $d/MUTATION.md seeded/$id/
prop=$(sed -n '/Break it:/,/Statement/p' /tmp/mut/PROMPT_$id.md | grep -m1 -oE "^C[0-9]{2}")
demo=$(basename $(ls $d/tests/*.rs | head -1))
python3 - "$id" "$prop" "$demo" "$round" <<'EOF'
import json,sys
id,prop,demo,rnd=sys.argv[1:5]
name=demo[:-3]
json.dump({"property_id":prop,"round":int(rnd),"change":"see MUTATION.md","needs_to_manifest":"see MUTATION.md","files":["patch.diff",demo,"MUTATION.md"],
"produced_by":"independent sub-agent given only the text of this one property and a scratch worktree of /repo (nothing from /verif), asked for a change needing a specific, rarely sampled condition to manifest",
"confirmed_by_me":{"scratch_worktree":"/tmp/mut/%s (removed afterwards)"%id,"commands":[
 "working tree with the change: cargo test --offline --features slice_cache,bitcoin,bitcoin_hashes,sha2,redb --test %s -> FAILED (exit 101, test failure, no compile error)"%name,
 "demo moved away: cargo test --offline --lib -> ok, 31 passed (unedited suite, change applied)",
 "cargo test --offline --features slice_cache,bitcoin,bitcoin_hashes,sha2,redb --lib -> ok (change applied)",
 "git apply -R patch.diff && same demo command -> ok"]},
"how_to_replay":"git -C /repo apply /verif/seeded/%s/patch.diff; cd /verif && ./check %s; git -C /repo checkout -- ."%(id,prop)}, open("seeded/%s/meta.json"%id,"w"), indent=1)
print(id,prop,demo)
EOF
git -C /repo worktree remove --force $d
