#!/bin/bash
# own-property check of each listed seeded change against /repo (applied, checked, undone)
cd /verif
for id in "$@"; do
  prop=$(python3 -c "import json;print(json.load(open('/verif/seeded/$id/meta.json'))['property_id'])")
  git -C /repo apply /verif/seeded/$id/patch.diff || { echo "$id APPLY-FAILED"; continue; }
  out=$(./check $prop --tier quick 2>&1)
  git -C /repo checkout -- .
  echo "$id $prop :: $(echo "$out" | grep -E '^VIOLATION' | head -1) :: $(echo "$out" | grep -E '^violation:' | head -1 | cut -c1-200) :: $(echo "$out" | grep -E 'quick:' | tail -1)"
done
git -C /repo status --short; echo "NOTE: evidence/*.json now describe mutated runs: re-run ./check ALL on the clean tree before committing"
